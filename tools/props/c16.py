"""C16 — decoder instances are isolated and unharmed by bad input.

Model, case format and harness are shared with C10 (tools/props/c10.py, coq/theories/DecoderCtl.v).
Ties specific to C16:
 (a) tools/tr_init.py — fail-closed ast pass over decoder.py / encoder.py / message.py: no instance attribute is
     bound to a parameter/default/module object, no class-level or module-level mutable binding, no function
     mutates a module-level container or a parameter (mutable defaults are only read);
 (b) corr_multi — several real decoders and encoders alive at once (some built from the SAME argument list
     objects), driven by one interleaved history; each decoder is compared by the kernel with its own independent
     model instance, each encoder with the sequence-counter model; encoder output is fed back as decoder input;
 (c) corr_malformed — the malformed stream (truncated frames of 0-2 bytes, unknown PGNs, PGNs whose is_fast raises,
     out-of-range payloads single-frame and on fast-packet delivery) against the model."""
from __future__ import annotations
import os

import vlib
from vlib import cz, clist, cbool, ctuple, run_cases, distinct_count
from props import c10 as H

PROPS_FILES = ["props/C16.v"]
RULE = H.RULE + ("; C16 emphasis: malformed stream; corr_multi = 3 decoders + 2 encoders alive at once on one interleaved "
                 "history, decoders 0 and 1 constructed from the same list objects")
TRUSTED = H.TRUSTED + ["tools/tr_init.py: the ast pass that stands for 'no aliasing between instances' (a functional model "
                       "cannot express aliasing); fail closed on any statement outside its enumerated shapes"]
ASSUMPTIONS = H.ASSUMPTIONS + [
    "malformed text lines and bad checksums are rejected by the format front-ends before _decode is reached (C06/C07 "
    "own those front-ends); here every call enters through decode_tcp",
    "C16_fast_fresh assumes the clock input is the same for all frames of the probe message"]
ALWAYS_SEARCH = True
CLAIM = H.CLAIM


def gen(ctx):
    import tr_init
    r = tr_init.check_repo(vlib.REPO)
    ctx.extra_obligations.append({"name": "tr_init.check_repo: instance state is fresh per instance; no class-/module-level "
                                          "mutable state; parameters and default objects are never mutated (ast, fail closed)",
                                  "ok": r["ok"], "detail": r["detail"]})
    if not r["ok"]:
        ctx.hints.append({"kind": "tr_init", "detail": r["detail"]})
    else:
        rep = r["report"]
        ctx.notes.append(f"tr_init: {rep['n_functions']} functions, {rep['n_init_assign']} __init__ bindings, "
                         f"{rep['n_class_bindings']} class-level bindings, {rep['n_mutable_defaults']} mutable defaults (read-only)")
    H.obl_c10(ctx)      # C16_fast_fresh_for_this_code: the database hypothesis decided on the regenerated tables
    rep = tr_init.db_hypotheses(os.path.join(vlib.REPO, "nmea2000", "pgns.py"))
    ctx.extra_obligations.append({"name": "tr_init.db_hypotheses(pgns.py): decode_pgn_N builds PGN N", "ok": rep["ok"],
                                  "detail": rep["detail"]})


# ------------------------------------------------------------------ several instances alive at once
def _valid_cfg(ctx, rng, profile):
    last = None
    for _ in range(40):
        cfg, hist = H.gen_case(ctx, rng, profile)
        try:
            H.make_decoder(cfg)
        except Exception as e:  # noqa: BLE001
            last = e
            continue
        return cfg, hist
    # the generator produces an invalid configuration in <10% of the draws: 40 refusals in a row mean the
    # constructor itself is broken (e.g. state leaking from earlier instances)
    raise RuntimeError(f"NMEA2000Decoder could not be constructed from 40 generated configurations in a row: {last!r}")


def multi_system(ctx, rng):
    """One system. Returns (decoder cases [(cfg, hist, ob)], encoder cases [[(is_fast, firsts)]], info)."""
    Dec, Enc, _, pg = H._impl()
    H.install_wrappers()
    K = 3
    parts = [_valid_cfg(ctx, rng, rng.choice(["mixed", "malformed", "claims", "filter"])) for _ in range(K)]
    # decoders 0 and 1 are constructed from the SAME list objects (in-place removals must stay private)
    shared = {k: list(parts[0][0][k]) for k in ("ex", "inc", "exm", "incm")}
    snapshot = {k: list(v) for k, v in shared.items()}
    parts[1] = ({**parts[0][0]}, parts[1][1])
    decs = []
    for j in range(K):
        cfg = parts[j][0]
        if j < 2:
            decs.append(Dec(exclude_pgns=shared["ex"], include_pgns=shared["inc"], exclude_manufacturer_code=shared["exm"],
                            include_manufacturer_code=shared["incm"], build_network_map=cfg["nm"]))
        else:
            decs.append(H.make_decoder(cfg))
    aux = Dec()                       # an instance created earlier, used to obtain messages to encode
    encs = [Enc(), Enc()]
    enc_log = [[], []]
    queues = [list(parts[j][1]) for j in range(K)]
    hists = [[] for _ in range(K)]
    obs = [[] for _ in range(K)]
    recs = [[] for _ in range(K)]
    P = H.pools(ctx)
    while any(queues):
        j = rng.choice([x for x in range(K) if queues[x]])
        if rng.random() < 0.12:
            # an encoder produces traffic for decoder j
            e = rng.randrange(2)
            pgn = rng.choice([126996, 127489, 127250, 127245, 129540])
            pl = P.payload(pgn, p_bad=0.0)
            try:
                m = getattr(pg, f"decode_pgn_{pgn}")(int.from_bytes(pl, "little"))
                m.source, m.destination, m.priority = rng.choice(H.SOURCES), 255, rng.getrandbits(3)
                pk = encs[e].encode_ebyte(m)
            except Exception:  # noqa: BLE001
                pk = None
            if pk:
                fast = bool(Dec._isFastPGN(pgn))
                enc_log[e].append((fast, [p[5] for p in pk] if fast else []))
                win = queues[j][0][1]
                queues[j][0:0] = [((p + bytes(13))[:13], win) for p in pk]
            aux.decode_tcp(H.mk_pkt(127250, 1, 255, 2, bytes(8))) if rng.random() < 0.3 else None
        pkt, win = queues[j].pop(0)
        r0 = len(H.REC)
        o = H.observe(decs[j], pkt, win)
        recs[j] += H.REC[r0:]
        del H.REC[r0:]
        hists[j].append((pkt, win))
        obs[j].append((o, H.iso_tuple(decs[j].source_to_iso_name.get(H.pkt_src(pkt)))))
    cases = []
    for j in range(K):
        srcs, pgn_seen = [], []
        for pkt, _ in hists[j]:
            s, p = H.pkt_src(pkt), H.pkt_fields(pkt)[0]
            if s not in srcs:
                srcs.append(s)
            if p not in pgn_seen:
                pgn_seen.append(p)
        fast = []
        for p in pgn_seen:
            try:
                fast.append((p, ("ok", Dec._isFastPGN(p))))
            except Exception as e:  # noqa: BLE001
                fast.append((p, ("err", type(e).__name__)))
        ob = {"ctor": None, "obs": obs[j], "dec": H._dedup(recs[j]), "fast": fast,
              "map": [(s, H.iso_tuple(decs[j].source_to_iso_name.get(s))) for s in srcs],
              "reasm": H.snapshot_reasm(decs[j])}
        cases.append((parts[j][0] if j != 1 else parts[0][0], hists[j], ob))
    info = {"shared_args_unchanged": shared == snapshot, "shared": shared, "snapshot": snapshot}
    return cases, enc_log, info


def cenc(log):
    return clist(ctuple(cbool(f), clist(cz(x) for x in firsts)) for f, firsts in log)


def corr_multi(ctx):
    rng = ctx.rng
    H.INTERN = {}
    lits, raw, enc_lits, enc_raw, bad_shared = [], [], [], [], []
    n = ctx.n(25, 250)
    for _ in range(n):
        cases, enc_log, info = multi_system(ctx, rng)
        for cfg, hist, ob in cases:
            lits.append(H.case_literal(cfg, hist, ob))
            raw.append((cfg, hist))
        for log in enc_log:
            enc_lits.append(cenc(log))
            enc_raw.append(log)
        if not info["shared_args_unchanged"]:
            bad_shared.append(info)
    r = run_cases("C16", "ctl_multi", H.IMPORTS, "ccase", "chk_case", lits, shard=max(6, len(lits) // 16 + 1),
                  prelude=H.intern_prelude())
    H.INTERN = None
    keys = [repr((H.cfg_json(c), [p.hex() for p, _ in h])) for c, h in raw]
    r.update(name="corr_multi: 3 decoders alive at once, interleaved, each vs its own model instance",
             distinct_nontrivial=distinct_count(keys),
             failing_cases=[H.case_json(raw[k][0], raw[k][1]) for k in r["failing"][:20]],
             samples=[{"config": H.cfg_json(raw[0][0]), "calls": len(raw[0][1])}],
             distribution={"systems": n, "decoders": len(lits), "calls": sum(len(h) for _, h in raw),
                           "argument_lists_mutated": len(bad_shared)})
    if bad_shared:
        r.setdefault("errors", []).append(f"constructor mutated its argument lists: {bad_shared[0]['snapshot']} -> {bad_shared[0]['shared']}")
    r2 = run_cases("C16", "enc_multi", H.IMPORTS, "list (bool * list Z)", "chk_enc", enc_lits, shard=400)
    r2.update(name="corr_multi: 2 encoders per system vs the sequence-counter model",
              distinct_nontrivial=distinct_count([repr(x) for x in enc_raw if any(f for f, _ in x)]),
              failing_cases=[{"encoder_log": enc_raw[k]} for k in r2["failing"][:10]],
              samples=[{"encoder_log": enc_raw[0][:4]}],
              distribution={"encoders": len(enc_lits), "fast_encodes": sum(sum(1 for f, _ in x if f) for x in enc_raw)})
    return [r, r2]


def correspond(ctx):
    reps = [H.corr_block(ctx, "C16", "ctl_malformed", [("malformed", ctx.n(110, 1100)), ("mixed", ctx.n(40, 400)),
                                                       ("claims", ctx.n(15, 150)), ("filter", ctx.n(15, 150))])]
    reps += corr_multi(ctx)
    H.remove_wrappers()
    return reps


# ------------------------------------------------------------------ property oracle on the real code
def _probe(ctx, rng, A, srcs):
    """A probe: a single-frame message, or a complete in-order fast-packet message whose sequence counter differs
    from the one stored for its key in decoder A."""
    P = H.pools(ctx)
    src = rng.choice(srcs)
    win = rng.random() < 0.5
    if rng.random() < 0.5:
        pgn = rng.choice(H.SINGLE)
        dst = 255 if not H.is_pdu1(pgn) else rng.choice([255, 17])
        return [(H.mk_pkt(pgn, src, dst, 3, P.payload(pgn, 0.1)), win)]
    pgn = rng.choice(H.FAST)
    dst = 255 if not H.is_pdu1(pgn) else rng.choice([255, 17])
    stored = A.data.get(f"{pgn}_{src}_{dst}")
    seq = rng.getrandbits(3)
    if stored is not None and stored.sequence_counter == seq:
        seq = (seq + 1) % 8
    return [(H.mk_pkt(pgn, src, dst, 3, (f + bytes([0xFF] * 8))[:8], 8), win) for f in H.fast_frames(P.payload(pgn, 0.1), seq)]


def c16_probe_oracle(cfg, hist, probe, others=()):
    """probe after history vs probe on a new decoder that was only given the claim the probe's source is known by."""
    try:
        A = H.make_decoder(cfg)
    except Exception:  # noqa: BLE001
        return None
    for pkt, win in hist:
        H.full_obs(A, pkt, win)
        for o in others:
            o()
    src = H.pkt_src(probe[0][0])
    entry = A.source_to_iso_name.get(src)
    B = H.make_decoder(cfg)
    if entry is not None:
        claim = None
        for pkt, win in hist:
            p, s, _, data = H.pkt_fields(pkt)
            if p == CLAIM and s == src and int.from_bytes(data, "little") == entry.name:
                claim = pkt
        if claim is None:
            return None
        H.full_obs(B, claim, False)
        if H.iso_tuple(B.source_to_iso_name.get(src)) != H.iso_tuple(entry):
            return None      # a C11 matter
    ra = [H.full_obs(A, pkt, win) for pkt, win in probe]
    rb = [H.full_obs(B, pkt, win) for pkt, win in probe]
    if ra != rb:
        kind = "single" if len(probe) == 1 else "fast-fresh"
        return kind, (f"{kind} probe PGN {H.pkt_fields(probe[0][0])[0]} from source {src}: after the history it returns "
                      f"{[x and x[0] for x in ra]}, on a new decoder {[x and x[0] for x in rb]} (or different content)")
    return None


def c16_neutral_oracle(cfg, hist, max_positions=3, focus=None):
    """Inputs that were rejected with an error never change what is returned later: delete one raising call from
    the history and compare everything returned after it.  (When the error came from the per-PGN decode function on
    delivery of a fast-packet message, the completed record is legitimately kept: later calls on that same key are
    not compared — C16_error_neutral names exactly this effect.)"""
    def run(h):
        d = H.make_decoder(cfg)
        out = []
        for pkt, win in h:
            d.started_at = H.datetime.now() if win else H.datetime.now() - H.timedelta(hours=1)
            try:
                r = d.decode_tcp(pkt)
                out.append(("ok", None if r is None else (r.PGN, r.id, r.source, r.destination,
                                                          H.iso_tuple(r.source_iso_name), repr(r.fields))))
            except Exception as e:  # noqa: BLE001
                out.append(("err", type(e).__name__))
        return out
    try:
        full = run(hist)
    except Exception:  # noqa: BLE001
        return None
    pos = [i for i, o in enumerate(full) if o[0] == "err" and (focus is None or hist[i][0] == focus)]
    pos.sort(key=lambda i: full[i][1] != "IndexError")
    for i in pos[:max_positions]:
        key_i = H.pkt_fields(hist[i][0])[:3]
        rest = run(hist[:i] + hist[i + 1:])
        for j in range(i + 1, len(hist)):
            if full[i][1] != "IndexError" and H.pkt_fields(hist[j][0])[:3] == key_i:
                continue
            a, b = full[j], rest[j - 1]
            a = a if a[0] == "ok" else ("ok", None)
            b = b if b[0] == "ok" else ("ok", None)
            if a != b:
                return i, j, (f"call {i} (PGN {key_i[0]} from {key_i[1]}) is rejected with {full[i][1]}, yet call {j} "
                              f"returns {a[1] and a[1][0]} with it and {b[1] and b[1][0]} without it in the history")
    return None


def c16_misc_oracles(ctx, rng):
    """determinism; constructor defaults and argument lists are never mutated; instances do not share containers"""
    Dec, Enc, _, _ = H._impl()
    out = []
    args = {"exclude_pgns": [60928, "isoAddressClaim", 127250], "exclude_manufacturer_code": ["Garmin"]}
    snap = {k: list(v) for k, v in args.items()}
    problems = []
    try:
        d1 = Dec(**args)
        ints = [60928, 127250]
        Dec(exclude_pgns=ints)
        # give d1 a claim and a partial fast-packet message, then build a decoder with default arguments
        d1.decode_tcp(H.mk_pkt(CLAIM, 5, 255, 6, (9 | (229 << 21) | (4 << 60) | (1 << 63)).to_bytes(8, "little")))
        d1.decode_tcp(H.mk_pkt(126996, 5, 255, 6, bytes([0x20, 134, 1, 2, 3, 4, 5, 6])))
        d2 = Dec()
    except Exception as e:  # noqa: BLE001
        return [{"key": "C16:aliasing:constructor-fails-after-earlier-instances", "kind": "c16-alias",
                 "what": f"constructing decoders one after the other fails: {e!r}"}]
    defaults = Dec.__init__.__defaults__
    if ints != [60928, 127250]:
        problems.append(f"constructor mutated its argument lists: [60928, 127250] -> {ints}")
    if {k: list(v) for k, v in args.items()} != snap:
        problems.append(f"constructor mutated its argument lists: {snap} -> {args}")
    if any(len(x) for x in defaults if hasattr(x, "__len__")):
        problems.append(f"a default argument object of NMEA2000Decoder.__init__ was mutated: {defaults}")
    if d2.exclude_pgns or d2.exclude_pgns_ids or d2.include_pgns or d2.exclude_manufacturer_code or d2.data or d2.source_to_iso_name:
        problems.append("a decoder built with default arguments does not start empty")
    for name in ("data", "source_to_iso_name", "exclude_pgns", "exclude_pgns_ids", "include_pgns", "include_pgns_ids",
                 "exclude_manufacturer_code", "include_manufacturer_code", "logged_unsupported_pgns"):
        if getattr(d1, name) is getattr(d2, name):
            problems.append(f"two decoders share the object bound to .{name}")
    e1, e2 = Enc(), Enc()
    e1.sequence_counter = 5
    if e2.sequence_counter != 0 or Enc().sequence_counter != 0:
        problems.append("encoder sequence counters are shared between instances")
    for p in problems:
        out.append({"key": "C16:aliasing:" + p.split(":")[0][:40], "what": p, "kind": "c16-alias"})
    try:
        cfg, hist = _valid_cfg(ctx, rng, "mixed")
        a, b = H.make_decoder(cfg), H.make_decoder(cfg)
        ra = [H.full_obs(a, p, w) for p, w in hist]
        rb = [H.full_obs(b, p, w) for p, w in hist]
        if ra != rb:
            out.append({"key": "C16:nondeterministic", "what": "the same history on two new decoders gives different results",
                        "kind": "c16-det", **H.case_json(cfg, hist)})
    except RuntimeError as e:
        out.append({"key": "C16:aliasing:constructor-fails-after-earlier-instances", "kind": "c16-alias", "what": str(e)})
    return out


UNIT_PGNS = [130312, 130316, 130311, 130314, 127250, 130306, 128259, 127245, 127488]


def c16_units_oracle(ctx, rng, only=None):
    """Decoders with different preferred units alive at once (and one after the other) on the SAME payloads: what each
    returns for a payload is what a decoder of its configuration returned for it the first time — never the result of
    another instance's (or its own earlier) unit conversion."""
    from nmea2000.consts import PhysicalQuantities as PQ
    Dec = H._impl()[0]
    units = {PQ.TEMPERATURE: "C", PQ.PRESSURE: "Bar", PQ.ANGLE: "deg", PQ.SPEED: "kts"}
    units2 = {PQ.TEMPERATURE: "F", PQ.PRESSURE: "PSI"}

    def run(order, pkts):
        decs = {"plain": Dec(), "units": Dec(preferred_units=units), "units2": Dec(preferred_units=units2)}
        first, log = {}, []
        for step, (who, k) in enumerate(order):
            if who == "new-plain":
                decs["new-plain"] = Dec()
            cfgname = "plain" if who == "new-plain" else who
            try:
                m = decs[who].decode_tcp(pkts[k])
                o = None if m is None else (m.PGN, m.id, m.source, [(f.id, repr(f.value), f.unit_of_measurement, repr(f.raw_value))
                                                                    for f in m.fields])
            except Exception as e:  # noqa: BLE001
                o = ("err", type(e).__name__)
            log.append((who, k, o))
            if (cfgname, k) not in first:
                first[(cfgname, k)] = (step, o)
            elif first[(cfgname, k)][1] != o:
                s0, o0 = first[(cfgname, k)]
                diff = ""
                if isinstance(o, tuple) and isinstance(o0, tuple) and len(o) == 4 and len(o0) == 4:
                    diff = "; ".join(f"{a[0]}: {a[1]} {a[2]} -> {b[1]} {b[2]}" for a, b in zip(o0[3], o[3]) if a != b)
                return step, (f"payload {pkts[k].hex()} (PGN {H.pkt_fields(pkts[k])[0]}): decoder '{who}' returns at step {step} "
                              f"something else than a decoder of the same configuration returned at step {s0} ({diff}); "
                              f"steps so far: {[(w, i) for w, i, _ in log]}")
        return None
    if only is not None:
        pk = [bytes.fromhex(x) for x in only["pkts"]]
        return run([tuple(x) for x in only["order"]], pk)
    for _ in range(ctx.n(12, 120)):
        pkts = []
        for _ in range(3):
            pgn = rng.choice(UNIT_PGNS)
            pkts.append(H.mk_pkt(pgn, rng.choice(H.SOURCES), 255, 3, bytes(rng.getrandbits(8) for _ in range(8))))
        order = [("plain", 0), ("units", 0), ("units", 0), ("plain", 0), ("units2", 0), ("new-plain", 0)]
        for _ in range(8):
            order.append((rng.choice(["plain", "units", "units2", "new-plain"]), rng.randrange(len(pkts))))
        r = run(order, pkts)
        if r:
            step = r[0]
            order = order[:step + 1]
            # shrink the order
            i = 0
            while i < len(order) - 1:
                t = order[:i] + order[i + 1:]
                if run(t, pkts):
                    order = t
                else:
                    i += 1
            r = run(order, pkts)
            return {"key": "C16:units-of-one-instance-change-another", "kind": "c16-units", "what": r[1],
                    "pkts": [x.hex() for x in pkts], "order": [list(x) for x in order]}
    return None


def search(ctx):
    rng = ctx.rng
    Dec, Enc, _, _ = H._impl()
    out, seen = [], set()
    w = c16_units_oracle(ctx, rng)
    if w:
        seen.add(w["key"])
        out.append(w)
    for w in c16_misc_oracles(ctx, rng):
        if w["key"] not in seen:
            seen.add(w["key"])
            out.append(w)
    if any(w["kind"] == "c16-alias" for w in out):
        return out          # instances are not independent: the history oracles below would only repeat that
    cands = []
    for h in ctx.hints:
        for c in h.get("cases", []):
            if "config" in c:
                cands.append((H.cfg_unjson(c["config"]), H.hist_unjson(c["history"])))
    for _ in range(ctx.n(200, 2000)):
        cands.append(H.gen_case(ctx, rng, rng.choice(["malformed", "malformed", "mixed", "claims"])))
    other = Dec(exclude_pgns=[127250], build_network_map=True)
    enc = Enc()
    noise = H.mk_pkt(129029, 5, 255, 3, bytes([0x20, 43, 1, 2, 3, 4, 5, 6]))

    def poke():
        try:
            other.decode_tcp(noise)
        except Exception:  # noqa: BLE001
            pass
        enc.sequence_counter = (enc.sequence_counter + 1) % 8
    for cfg, hist in cands:
        try:
            A = H.make_decoder(cfg)
        except Exception:  # noqa: BLE001
            continue
        r = c16_neutral_oracle(cfg, hist)
        if r and "C16:rejected-input-changes-later-results" not in seen:
            seen.add("C16:rejected-input-changes-later-results")
            culprit = hist[r[0]][0]
            hs = H.shrink(hist[:r[1] + 1], lambda t: c16_neutral_oracle(cfg, t, 50, culprit) is not None)
            r = c16_neutral_oracle(cfg, hs, 50, culprit) or r
            out.append({"key": "C16:rejected-input-changes-later-results", "what": r[2], "kind": "c16-neutral",
                        **H.case_json(cfg, hs)})
        for pkt, win in hist:
            H.full_obs(A, pkt, win)
        srcs = sorted({H.pkt_src(p) for p, _ in hist}) or [1]
        for _ in range(2):
            probe = _probe(ctx, rng, A, srcs)
            r = c16_probe_oracle(cfg, hist, probe, others=(poke,))
            if r:
                key = f"C16:{r[0]}-probe-depends-on-history"
                if key not in seen:
                    seen.add(key)
                    hs = H.shrink(hist, lambda t: (c16_probe_oracle(cfg, t, probe) or (None,))[0] == r[0])
                    r2 = c16_probe_oracle(cfg, hs, probe) or r
                    out.append({"key": key, "what": r2[1], "kind": "c16-probe", **H.case_json(cfg, hs),
                                "probe": [[p.hex(), w] for p, w in probe]})
    # proprietary garbage: a frame of a multi-definition PGN whose match fields select NO definition (ignored by the
    # decoder), then a valid message of the same PGN — must come back exactly as on a new decoder
    from props import c08 as C8
    plain = {"ex": [], "inc": [], "exm": [], "incm": [], "nm": False}
    for pgn, g in C8._groups(C8._db()).items():
        if "C16:single-probe-depends-on-history" in seen and "C16:fast-probe-depends-on-history" in seen:
            break
        if not (len(g) > 1 and any(C8._match_fields(d) for d in g)):
            continue
        ps = C8._payloads(g, rng, 1)
        none = [q for q in ps if C8._spec_select(g, q) is None]
        some = [q for q in ps if C8._spec_select(g, q) is not None]
        if not none or not some:
            continue
        fast = bool(Dec._isFastPGN(pgn))
        dst = 255 if not H.is_pdu1(pgn) else 17

        def frames(q, seq, pgn=pgn, g=g, fast=fast, dst=dst):
            nb = max([8] + [d.get("Length", 8) for d in g]) if fast else 8
            data = (q & ((1 << (8 * nb)) - 1)).to_bytes(nb, "little")
            if not fast:
                return [(H.mk_pkt(pgn, 5, dst, 3, data), False)]
            return [(H.mk_pkt(pgn, 5, dst, 3, (f + bytes([0xFF] * 8))[:8], 8), False) for f in H.fast_frames(data, seq)]
        hist = frames(none[0], 1) + frames(none[-1], 2)
        for q in some[:3]:
            probe = frames(q, 5)
            r = c16_probe_oracle(plain, hist, probe)
            if r:
                key = f"C16:{r[0]}-probe-depends-on-history"
                if key not in seen:
                    seen.add(key)
                    out.append({"key": key, "what": r[1], "kind": "c16-probe", **H.case_json(plain, hist),
                                "probe": [[pk.hex(), w_] for pk, w_ in probe]})
                break
        # one definition of the PGN excluded (or the only one included) BY ID: messages of that definition in the history,
        # then a message of a SIBLING definition — what a filtered-out message leaves behind must not decide the sibling's fate
        by_def = {}
        for q in some:
            d_ = C8._spec_select(g, q)
            by_def.setdefault(d_["Id"], q)
        ids = sorted(by_def)
        if len(ids) >= 2 and "C16:filtered-sibling" not in seen:
            a_id, b_id = rng.sample(ids, 2)
            for cfg2 in ({**plain, "ex": [a_id]}, {**plain, "ex": [H.rand_case_str(rng, a_id)]}, {**plain, "inc": [b_id, 127250]}):
                hist2 = frames(by_def[a_id], 1) + frames(by_def[a_id], 2)
                probe = frames(by_def[b_id], 5)
                r = c16_probe_oracle(cfg2, hist2, probe)
                if r:
                    seen.add("C16:filtered-sibling")
                    out.append({"key": "C16:filtered-sibling", "kind": "c16-probe", **H.case_json(cfg2, hist2),
                                "probe": [[pk.hex(), w_] for pk, w_ in probe],
                                "what": r[1] + f" [filter ex={cfg2['ex']} inc={cfg2['inc']}: the history holds messages of {a_id}, "
                                               f"the probe is {b_id} of the same PGN]"})
                    break
    # truncated fast-packet frames as garbage (first frame announcing a length but carrying 0..2 data bytes,
    # continuation frames carrying the counter byte only, in every order), then a complete message with ANOTHER
    # sequence counter on the same stream
    P = H.pools(ctx)
    for pgn in list(H.FAST)[:6]:
        if "C16:fast-fresh-probe-depends-on-history" in seen or "C16:fast-probe-depends-on-history" in seen:
            break
        dst = 255 if not H.is_pdu1(pgn) else 17
        payload = P.payload(pgn, 0.1)
        # every shape once (first frame with 0..2 bytes after the length byte; continuation frames 1..2 with 0..1 bytes after
        # the counter byte; first-then-continuation, continuation-then-first, continuation twice), then random ones
        shapes = []
        for e0 in (0, 1, 2):
            for fc in (1, 2):
                for e1 in (0, 1):
                    first, cont = (0, e0), (fc, e1)
                    shapes += [[first, cont], [cont, first], [first, cont, cont], [cont, cont]]
        shapes += [[(0, 0)], [(1, 0)], [(0, 0), (0, 1)]]
        # joining the bus in the middle of a message: stray continuation frames of full size and NO first frame — nothing is
        # known about that message, so the next complete one may carry any counter, the very same one included
        shapes += [[(1, 7)], [(2, 7), (3, 7)], [(1, 7), (1, 7)], [(3, 2)]]
        for trial in range(len(shapes) + ctx.n(6, 40)):
            gs = rng.randrange(8)
            garbage = []
            spec = shapes[trial] if trial < len(shapes) else [(rng.choice([0, 0, 1, 1, 2, 3]), rng.choice([0, 0, 1, 2]))
                                                              for _ in range(rng.randint(1, 4))]
            for fc, extra in spec:
                body = bytes([(gs << 5) | fc]) + (bytes([rng.choice([9, 20, 30])]) if fc == 0 else b"") + \
                    bytes(rng.getrandbits(8) for _ in range(extra))
                garbage.append((H.mk_pkt(pgn, 5, dst, 3, body, len(body)), False))
            same_ok = all(fc != 0 for fc, _ in spec)          # no first frame seen: the probe may reuse the counter
            pc = gs if (same_ok and trial % 2 == 0) else (gs + 1 + rng.randrange(7)) % 8
            probe = [(H.mk_pkt(pgn, 5, dst, 3, (f + bytes([0xFF] * 8))[:8], 8), False)
                     for f in H.fast_frames(payload, pc)]
            r = c16_probe_oracle(plain, garbage, probe)
            if r:
                key = f"C16:{r[0]}-probe-depends-on-history"
                if key not in seen:
                    seen.add(key)
                    out.append({"key": key, "what": r[1], "kind": "c16-probe", **H.case_json(plain, garbage),
                                "probe": [[pk.hex(), w_] for pk, w_ in probe]})
                break
    # a long history of UNFINISHED messages on many streams (first frames only, stray continuation frames, empty frames),
    # then a complete message from a source never seen before: as on a new decoder
    if "C16:fast-fresh-probe-depends-on-history" not in seen:
        for nstreams in (70, 140, 300):
            hist = []
            srcs = list(range(1, 250))
            rng.shuffle(srcs)
            for k in range(nstreams):
                pgn = H.FAST[k % len(H.FAST)]
                src = srcs[k % len(srcs)]
                dst = 255 if not H.is_pdu1(pgn) else rng.choice([255, 17])
                fr = H.fast_frames(P.payload(pgn, 0.0), rng.randrange(8))
                shape = rng.choice(["first", "first", "cont", "empty"])
                body = fr[0] if shape == "first" else (fr[min(1, len(fr) - 1)] if shape == "cont" else b"")
                hist.append((H.mk_pkt(pgn, src, dst, 3, (body + bytes([0xFF] * 8))[:8] if body else b"", 8 if body else 0), False))
            pgn = rng.choice(H.FAST)
            dst = 255 if not H.is_pdu1(pgn) else 17
            probe = [(H.mk_pkt(pgn, 251, dst, 3, (f + bytes([0xFF] * 8))[:8], 8), False)
                     for f in H.fast_frames(P.payload(pgn, 0.0), rng.randrange(8))]
            r = c16_probe_oracle(plain, hist, probe)
            if r:
                key = f"C16:{r[0]}-probe-depends-on-history"
                if key not in seen:
                    seen.add(key)
                    out.append({"key": key, "what": r[1] + f" [after unfinished messages on {nstreams} streams]", "kind": "c16-probe",
                                **H.case_json(plain, hist), "probe": [[pk.hex(), w_] for pk, w_ in probe]})
                break
    # the same decoder fed through DIFFERENT entry points: a pre-assembled text line of a fast-packet PGN
    # (Actisense / canboat with already_combined), then the raw frames of another message of that PGN — and the
    # other way round; each must come back as on a new decoder
    w = mixed_entry_oracle(ctx, rng)
    if w and w["key"] not in seen:
        seen.add(w["key"])
        out.append(w)
    return out


def mixed_entry_oracle(ctx, rng, only=None):
    Dec = H._impl()[0]
    P = H.pools(ctx)

    def obs(fn, x):
        try:
            m = fn(x)
        except Exception as e:  # noqa: BLE001
            return ("raises", type(e).__name__)
        return None if m is None else (m.PGN, m.id, m.source, m.destination, repr([(f.id, f.raw_value) for f in m.fields]))
    for pgn in ([only] if only else list(H.FAST)[:8]):
        dst = 255
        if H.is_pdu1(pgn):
            continue
        pay1, pay2 = P.payload(pgn, 0.1), P.payload(pgn, 0.1)
        line = "2020-01-01-00:00:00.000,3,%d,5,%d,%d,%s" % (pgn, dst, len(pay1), ",".join("%02x" % b for b in pay1))
        frames = [H.mk_pkt(pgn, 5, dst, 3, (f + bytes([0xFF] * 8))[:8], 8) for f in H.fast_frames(pay2, 3)]
        # text first, frames second
        a, b = Dec(), Dec()
        first = obs(lambda s: a.decode_basic_string(s, True), line)
        got = [obs(a.decode_tcp, f) for f in frames]
        want = [obs(b.decode_tcp, f) for f in frames]
        if got != want:
            return {"key": "C16:mixed-entry-points", "kind": "c16-mixed", "pgn": pgn,
                    "what": f"PGN {pgn}: after one pre-assembled text line ({first and first[1]}) the frames of the next message "
                            f"return {[g and g[0] for g in got]}, on a new decoder {[g and g[0] for g in want]}"}
        # frames first, text second
        a, b = Dec(), Dec()
        for f in frames:
            obs(a.decode_tcp, f)
        got2, want2 = obs(lambda s: a.decode_basic_string(s, True), line), obs(lambda s: b.decode_basic_string(s, True), line)
        if got2 != want2:
            return {"key": "C16:mixed-entry-points", "kind": "c16-mixed", "pgn": pgn,
                    "what": f"PGN {pgn}: after a message received frame by frame, a pre-assembled text line returns "
                            f"{got2 and got2[0]}, on a new decoder {want2 and want2[0]}"}
    return None


def replay(ctx, data):
    w = data.get("witness", data)
    if w.get("kind") == "c16-units":
        r = c16_units_oracle(ctx, ctx.rng, only=w)
        print("expected: a decoder returns for a payload what a decoder of its configuration returned for it before")
        print("observed:", r[1] if r else "property holds on this input")
        return r is not None
    k = w.get("kind")
    if k == "c16-mixed":
        r = mixed_entry_oracle(ctx, ctx.rng, only=w.get("pgn"))
        print("expected: a message comes back the same whatever entry points the decoder served before")
        print("observed:", r["what"] if r else "property holds on this input")
        return r is not None
    if k == "c16-probe":
        r = c16_probe_oracle(H.cfg_unjson(w["config"]), H.hist_unjson(w["history"]), H.hist_unjson(w["probe"]))
        print("expected: the probe returns the same after the history as on a new decoder")
        print("observed:", r[1] if r else "property holds on this input")
        return r is not None
    if k == "c16-neutral":
        r = c16_neutral_oracle(H.cfg_unjson(w["config"]), H.hist_unjson(w["history"]), max_positions=50)
        print("expected: deleting a call that was rejected with an error changes nothing that is returned later")
        print("observed:", r[2] if r else "property holds on this input")
        return r is not None
    if k == "c16-det":
        cfg, hist = H.cfg_unjson(w["config"]), H.hist_unjson(w["history"])
        a, b = H.make_decoder(cfg), H.make_decoder(cfg)
        bad = [H.full_obs(a, p, x) for p, x in hist] != [H.full_obs(b, p, x) for p, x in hist]
        print("observed:", "two runs differ" if bad else "property holds on this input")
        return bad
    if k == "c16-alias":
        ws = [x for x in c16_misc_oracles(ctx, ctx.rng) if x["kind"] == "c16-alias"]
        print("observed:", ws[0]["what"] if ws else "property holds on this input")
        return bool(ws)
    print("observed: not a C16 witness")
    return False
