"""C03 — fast-packet segmentation and reassembly are inverse for every payload length 0..223 and counter state.

Tie: FastPacket.v `encode_fast`/`segment`/`enc_run` vs NMEA2000Encoder._encode_fast_message (complete sweep of all
224 lengths x 8 counters in both tiers + random bytes + over-long payloads + runs of messages through one encoder
object), and `dec_run` vs NMEA2000Decoder.decode_tcp on unpadded histories (the history generator of c04.py with
padding switched off, so this check is independent of fixes/F-pad.patch)."""
from vlib import cz, clist, cbytes, ctuple, run_cases, distinct_count
from props import c04

PROPS_FILES = ["props/C03.v"]
RULE = ("encoder: every (length 0..223, counter 0..7) pair once with seeded random bytes (complete finite sweep), "
        "plus random lengths incl. 224..300 (counter overflow / ValueError) and counters set on the encoder object; "
        "runs of 1..20 payloads through one encoder object (wrap-around); decoder: the C04 history generator without "
        "filler bytes; non-trivial = more than one frame / at least one delivery; distinct by input")
TRUSTED = ["FastPacket.v is a hand model of encoder._encode_fast_message and decoder._decode_fast_message/_decode "
           "(wire byte order); tied to the code only by the correspondence cases of this run"]
ASSUMPTIONS = ["Python int <<, |, //, min and bytes slicing are Z.shiftl, Z.lor, Z.div, Z.min, firstn/skipn",
               "payload lengths 0..223 and counters 0..7 as the property states; the single-frame/fast decision "
               "(_isFastPGN) is exercised through decode_tcp with PGNs 126720/130816 and one PGN unknown to pgns.py"]
ALWAYS_SEARCH = True

IMPORTS = c04.IMPORTS
ENC_TY = "(Z * list Z) * (option (list (list Z)) * Z)"
RUN_TY = "(Z * list (list Z)) * list (list (list Z))"


def _enc(seq, payload):
    from nmea2000.encoder import NMEA2000Encoder
    e = NMEA2000Encoder()
    e.sequence_counter = seq
    try:
        fr = e._encode_fast_message(126720, 3, 1, 255, bytes(payload))
    except ValueError:
        fr = None
    return fr, e.sequence_counter


def _copt_frames(fr):
    return "None" if fr is None else "(Some " + clist(cbytes(f) for f in fr) + ")"


def correspond(ctx):
    rng = ctx.rng
    reports = []
    # ---- encoder: complete sweep + random
    inputs = [(s, [rng.getrandbits(8) for _ in range(n)]) for n in range(224) for s in range(8)]
    sweep = len(inputs)
    for _ in range(ctx.n(300, 3000)):
        n = rng.choice([rng.randrange(0, 224), rng.randrange(0, 30), rng.randrange(217, 301), rng.choice(c04.LENGTHS)])
        inputs.append((rng.randrange(8), [rng.choice([0, 255, rng.getrandbits(8)]) for _ in range(n)]))
    cases, nerr = [], 0
    for s, p in inputs:
        fr, s2 = _enc(s, p)
        nerr += fr is None
        cases.append(ctuple(ctuple(cz(s), cbytes(p)), ctuple(_copt_frames(fr), cz(s2))))
    r = run_cases("C03", "enc", IMPORTS, ENC_TY, "chk_enc", cases, shard=max(50, (len(cases) + 15) // 16))
    r.update(name="_encode_fast_message vs encode_fast (all lengths 0..223 x 8 counters + random)",
             distinct_nontrivial=distinct_count([i for i in inputs if len(i[1]) > 6]),
             exhaustive_over="payload length 0..223 x sequence counter 0..7",
             failing_cases=[{"kind": "enc", "seq": inputs[k][0], "payload": bytes(inputs[k][1]).hex()} for k in r["failing"][:10]],
             samples=[{"seq": inputs[k][0], "len": len(inputs[k][1]), "frames": len(_enc(*inputs[k])[0] or [])} for k in (0, 100, sweep - 1)],
             distribution={"sweep": sweep, "random": len(inputs) - sweep, "value_errors": nerr})
    reports.append(r)
    # ---- runs through one encoder object
    from nmea2000.encoder import NMEA2000Encoder
    runs, cases = [], []
    for _ in range(ctx.n(60, 600)):
        e = NMEA2000Encoder()
        s0 = rng.randrange(8)
        e.sequence_counter = s0
        ps = [[rng.getrandbits(8) for _ in range(rng.choice([0, 1, 6, 7, 13, 14, rng.randrange(0, 60)]))]
              for _ in range(rng.randint(1, 20))]
        obs = [e._encode_fast_message(130816, 6, 2, 255, bytes(p)) for p in ps]
        runs.append((s0, ps))
        cases.append(ctuple(ctuple(cz(s0), clist(cbytes(p) for p in ps)), clist(clist(cbytes(f) for f in fr) for fr in obs)))
    r = run_cases("C03", "encrun", IMPORTS, RUN_TY, "chk_enc_run", cases, shard=max(8, (len(cases) + 15) // 16))
    r.update(name="runs of messages through one encoder vs enc_run", distinct_nontrivial=distinct_count(runs),
             failing_cases=[{"kind": "encrun", "seq": runs[k][0], "payloads": [bytes(p).hex() for p in runs[k][1]]} for k in r["failing"][:5]],
             samples=[{"seq0": runs[0][0], "messages": len(runs[0][1])}])
    reports.append(r)
    # ---- decoder on unpadded histories
    reports.append(c04.corr_histories(ctx, "C03", "hist", ctx.n(60, 600), "none", "trunc"))
    return reports


# ------------------------------------------------------------------ property oracle on the real code
def _shape_violation(seq, payload, fr):
    n = len(payload)
    if not fr:
        return "no frame produced"
    want = 1 if n <= 6 else 1 + -(-(n - 6) // 7)
    if len(fr) != want:
        return f"{len(fr)} frames produced, {want} needed"
    data = b""
    for k, f in enumerate(fr):
        if not 1 <= len(f) <= 8:
            return f"frame {k} has {len(f)} bytes"
        if f[0] != ((seq << 5) | k):
            return f"frame {k} starts with {f[0]:#x}, expected {(seq << 5) | k:#x}"
        if k == 0:
            if len(f) < 2 or f[1] != n:
                return "frame 0 does not announce the length"
            data += f[2:]
        else:
            if len(f) < 2:
                return f"frame {k} carries no data"
            data += f[1:]
    if data != bytes(payload):
        return "concatenated frame data differs from the payload"
    return None


def _check_one(P, key, seq, payload, dec=None):
    """encode with the real segmenter, check the shape, feed the frames in order to the real decoder"""
    from nmea2000.decoder import NMEA2000Decoder
    fr, s2 = _enc(seq, payload)
    if fr is None:
        return "encoder raised"
    v = _shape_violation(seq, payload, fr)
    if v:
        return v
    if s2 == seq or not 0 <= s2 < 8:
        return f"sequence counter {seq} -> {s2}"
    dec = dec or NMEA2000Decoder()
    want = int.from_bytes(bytes(payload), "little")
    for i, f in enumerate(fr):
        o = c04.observe(dec, c04.packet(key, f))
        if i < len(fr) - 1:
            if o[0] != "none":
                return f"decoder answered {list(o)[:2]} at frame {i} of {len(fr)}"
        elif not (o[0] == "msg" and o[1] == want and o[2] == key):
            return f"decoder answered {list(o)[:2]} at the last frame instead of the payload"
    return None


def _witness(seq, payload, key, v):
    return {"key": "segment-reassemble:" + v.split(" ")[0] + ":" + ("shape" if "decoder" not in v else "inverse"),
            "kind": "one", "what": f"length {len(payload)}, counter {seq}: {v}", "seq": seq,
            "payload": bytes(payload).hex(), "stream": list(key)}


def search(ctx):
    import nmea2000.pgns as P
    from nmea2000.decoder import NMEA2000Decoder
    from nmea2000.encoder import NMEA2000Encoder
    rng = ctx.rng
    out = []
    # complete sweep: all lengths x all counters
    for n in range(224):
        for s in range(8):
            key = (126720, 11, 22) if (n + s) % 2 else (130816, 11, 255)
            p = c04.fallback_payload(rng, key[0], n, P)
            v = _check_one(P, key, s, p)
            if v:
                out.append(_witness(s, p, key, v))
                break
        if out:
            break
    # consecutive messages through one encoder into one decoder (wrap-around), same stream
    if not out:
        for _ in range(ctx.n(20, 200)):
            e, d = NMEA2000Encoder(), NMEA2000Decoder()
            e.sequence_counter = rng.randrange(8)
            key = (126720, 1, 2)
            hist = []
            for j in range(rng.randint(9, 30)):
                p = c04.fallback_payload(rng, key[0], rng.choice([0, 3, 6, 7, 8, 13, 14, 20, 50]), P)
                fr = e._encode_fast_message(key[0], 3, key[1], key[2], bytes(p))
                got = [c04.observe(d, c04.packet(key, f)) for f in fr]
                hist.append(bytes(p).hex())
                okm = all(o[0] == "none" for o in got[:-1]) and got[-1][0] == "msg" and \
                    got[-1][1] == int.from_bytes(bytes(p), "little")
                if not okm:
                    out.append({"key": "sequence:message-lost-or-wrong", "kind": "seq", "seq0": None,
                                "what": f"message {j} of a run through one encoder/decoder was answered {[list(o)[:2] for o in got]}",
                                "payloads": hist})
                    break
            if out:
                break
    # several streams through ONE encoder (one shared 3-bit counter) into ONE decoder: a stream then sees the same
    # counter value twice in a row (A, 7 x B, A; round robin over 8 streams) — every message must still come back
    if not out:
        keys = [(126720, 1, 2), (130816, 1, 255), (126720, 1, 3), (130816, 3, 255), (126720, 9, 2), (130816, 9, 255),
                (126720, 9, 255), (130816, 77, 255)]
        pats = [[0] + [1] * 7 + [0], [0] + [1] * 15 + [0] + [1] * 7 + [0], list(range(8)) * 3]
        for _ in range(ctx.n(6, 60)):
            pats.append([rng.randrange(rng.choice([2, 3, 8])) for _ in range(rng.randint(9, 40))])
        for pat in pats:
            e, d = NMEA2000Encoder(), NMEA2000Decoder()
            e.sequence_counter = rng.randrange(8)
            hist = []
            for j, ki in enumerate(pat):
                key = keys[ki]
                p = c04.fallback_payload(rng, key[0], rng.choice([0, 3, 6, 7, 8, 13, 14, 20, 50]), P)
                fr = e._encode_fast_message(key[0], 3, key[1], key[2], bytes(p))
                got = [c04.observe(d, c04.packet(key, f)) for f in fr]
                hist.append([list(key), bytes(p).hex()])
                okm = all(o[0] == "none" for o in got[:-1]) and got[-1][0] == "msg" and \
                    got[-1][1] == int.from_bytes(bytes(p), "little")
                if not okm:
                    out.append({"key": "sequence:multi-stream:message-lost-or-wrong", "kind": "mseq",
                                "what": f"message {j} (stream {key}) of a run of {len(pat)} messages over several streams through one "
                                        f"encoder/decoder was answered {[list(o)[:2] for o in got]}",
                                "counter0": None, "messages": hist})
                    break
            if out:
                break
    # the frames through EVERY frame-level format (EByte, USB, Yacht Devices), byte contents that look like framing
    # (AA 55 pairs, CR / LF, all-FF, all-00): nothing until the last frame, then the payload
    if not out:
        w = _formats_sweep(ctx, P)
        if w:
            out.append(w)
    # another decoder object in the same process holds an unfinished message of the same stream and counter: a new
    # decoder starts empty
    if not out:
        w = _two_decoders(ctx, P)
        if w:
            out.append(w)
    # public path for encodable fast definitions: frames of encode_ebyte fed to decode_tcp give the message that
    # direct decoding of the encoder's payload gives
    if not out:
        out += _public_path(ctx, P)
    return out


def _feed_format(fmt, key, frames, rng, dec):
    """frames (lists of data bytes) rendered in format fmt (0 EByte, 1 USB, 2 Yacht Devices) into dec: list of outcomes"""
    from props import c06 as W
    from props import c07 as C7
    ident = c04.can_id(key[0], key[1], key[2], 3)
    outs = []
    for f in frames:
        x = W.render(fmt, ident, bytes(f), rng, C7.ref_extract, False)
        try:
            m = (dec.decode_tcp, dec.decode_usb, dec.decode_yacht_devices_string)[fmt](x)
        except Exception as e:  # noqa: BLE001
            outs.append(("raises", type(e).__name__))
            continue
        if m is None:
            outs.append(("none",))
        else:
            try:
                outs.append(("msg", c04.msg_int(m)))
            except Exception:  # noqa: BLE001
                outs.append(("other", repr(m)[:60]))
    return outs


def _content(rng, n, kind):
    if kind == "aa55":
        b = bytes([0xAA, 0x55] * (n // 2 + 1))[:n]
    elif kind == "55aa":
        b = bytes([0x55, 0xAA] * (n // 2 + 1))[:n]
    elif kind == "crlf":
        b = bytes([0x0D, 0x0A] * (n // 2 + 1))[:n]
    elif kind == "ff":
        b = bytes([0xFF] * n)
    elif kind == "zero":
        b = bytes(n)
    else:
        b = bytearray(rng.getrandbits(8) for _ in range(n))
        for _ in range(rng.randint(0, 3)):
            if n >= 2:
                i = rng.randrange(n - 1)
                b[i:i + 2] = b"\xaa\x55"
        b = bytes(b)
    return b


def _formats_sweep(ctx, P):
    from nmea2000.decoder import NMEA2000Decoder
    rng = ctx.rng
    names = {0: "ebyte/decode_tcp", 1: "usb/decode_usb", 2: "yacht devices/decode_yacht_devices_string"}
    lengths = [0, 1, 5, 6, 7, 8, 12, 13, 14, 20, 21, 27, 43, 100, 222, 223]
    todo = [(n, kind, None) for n in lengths + [rng.randrange(224) for _ in range(ctx.n(10, 120))]
            for kind in ("aa55", "55aa", "crlf", "ff", "zero", "rand")]
    # whole frames of 0xFF / 0x00 INCLUDING the counter byte: the last frame of the longest messages under counter 7
    # (header byte 0xFF) and the first continuation frames under counter 0 (header byte 0x01..), every length that has a 32nd frame
    todo += [(n, kind, sq) for n in range(217, 224) for kind in ("ff", "zero") for sq in (7, 0)]
    for n, kind, forced in todo:
        if True:
            s = rng.randrange(8) if forced is None else forced
            key = (126720, 11, 22) if (n + s) % 2 else (130816, 11, 255)
            body = _content(rng, max(0, n - 2), kind)
            # the first two payload bytes carry the manufacturer / industry code the fallback definitions need
            p = list(c04.fallback_payload(rng, key[0], n, P))
            p = p[:2] + list(body)[:max(0, n - 2)] if n >= 2 else p
            fr, _ = _enc(s, p)
            if fr is None:
                continue
            want = int.from_bytes(bytes(p), "little")
            for fmt in (0, 1, 2):
                got = _feed_format(fmt, key, fr, rng, NMEA2000Decoder())
                ok = all(o == ("none",) for o in got[:-1]) and got[-1][0] == "msg" and got[-1][1] == want
                if not ok:
                    return {"key": f"formats:{names[fmt].split('/')[0]}:message-lost-or-wrong", "kind": "formats", "fmt": fmt,
                            "seq": s, "payload": bytes(p).hex(), "stream": list(key),
                            "what": f"{n}-byte payload {bytes(p).hex()[:60]} (content class {kind}), counter {s}, through {names[fmt]}: "
                                    f"frames answered {[o[0] for o in got]}" +
                                    ("" if got[-1][0] != "msg" else " with another payload")}
    return None


def _two_decoders(ctx, P):
    from nmea2000.decoder import NMEA2000Decoder
    rng = ctx.rng
    for _ in range(ctx.n(8, 60)):
        s = rng.randrange(8)
        key = rng.choice([(126720, 11, 22), (130816, 11, 255)])
        pa = list(c04.fallback_payload(rng, key[0], rng.choice([20, 27, 50]), P))
        pb = list(c04.fallback_payload(rng, key[0], rng.choice([20, 27, 50]), P))
        fa, _ = _enc(s, pa)
        fb, _ = _enc(s, pb)
        other = NMEA2000Decoder()
        for f in fa[:rng.randint(1, len(fa) - 1)]:          # an abandoned transfer held by ANOTHER decoder object
            c04.observe(other, c04.packet(key, f))
        d = NMEA2000Decoder()
        got = [c04.observe(d, c04.packet(key, f)) for f in fb]
        ok = all(o[0] == "none" for o in got[:-1]) and got[-1][0] == "msg" and got[-1][1] == int.from_bytes(bytes(pb), "little")
        if not ok:
            return {"key": "instances:new-decoder-does-not-start-empty", "kind": "two-dec", "seq": s, "stream": list(key),
                    "pa": bytes(pa).hex(), "pb": bytes(pb).hex(),
                    "what": f"a NEW decoder fed the frames of one message (counter {s}) answers {[list(o)[:1] for o in got]}"
                            + (" with another payload" if got[-1][0] == "msg" else "")
                            + " while another decoder object of the process holds an unfinished message of the same stream and counter"}
    return None


def _public_path(ctx, P, only=None):
    from nmea2000.decoder import NMEA2000Decoder
    from nmea2000.encoder import NMEA2000Encoder
    rng = ctx.rng
    tried = okc = 0
    for name in sorted(n for n in dir(P) if n.startswith("is_fast_pgn_")):
        pgn = int(name[12:])
        if only is not None and pgn != only:
            continue
        try:
            if getattr(P, name)() is not True:
                continue
        except Exception:  # noqa: BLE001
            continue
        dfun = getattr(P, f"decode_pgn_{pgn}", None)
        if dfun is None:
            continue
        for _ in range(3 if only is None else 12):
            try:
                m0 = dfun(rng.getrandbits(8 * rng.choice([8, 20, 40])) if rng.random() < 0.5 else 0)
                if m0 is None:
                    continue
                enc, dec = NMEA2000Encoder(), NMEA2000Decoder()
                m0.source, m0.destination, m0.priority = 7, 255, 3
                payload = enc._call_encode_function(m0)
                direct = dfun(int.from_bytes(payload, "little"))
                pk = enc.encode_ebyte(m0)
            except Exception:  # noqa: BLE001
                continue
            tried += 1
            got = None
            try:
                for p in pk:
                    got = dec.decode_tcp(p + bytes(13 - len(p)))
            except Exception as ex:  # noqa: BLE001
                got = ex
            a = None if direct is None else [(f.id, f.raw_value) for f in direct.fields]
            b = None if (got is None or isinstance(got, Exception)) else [(f.id, f.raw_value) for f in got.fields]
            if repr(a) != repr(b):
                return [{"key": f"public:{pgn}", "kind": "public", "what": f"PGN {pgn}: frames of encode_ebyte reassemble to {str(b)[:120]}, direct decode gives {str(a)[:120]}",
                         "pgn": pgn}]
            okc += 1
    ctx.notes.append(f"public encode_ebyte -> decode_tcp path: {okc}/{tried} fast-packet messages reassembled identically")
    return []


def replay(ctx, data):
    import nmea2000.pgns as P
    w = data.get("witness", data)
    if w.get("kind") == "one":
        v = _check_one(P, tuple(w["stream"]), w["seq"], list(bytes.fromhex(w["payload"])))
        print("observed:", v or "property holds on this input")
        return v is not None
    if w.get("kind") == "enc":
        fr, s2 = _enc(w["seq"], list(bytes.fromhex(w["payload"])))
        v = "encoder raised" if fr is None else _shape_violation(w["seq"], list(bytes.fromhex(w["payload"])), fr)
        print("observed:", v or "shape holds on this input")
        return v is not None
    if w.get("kind") == "history":
        return c04.replay(ctx, data)
    if w.get("kind") == "formats":
        from nmea2000.decoder import NMEA2000Decoder
        p = list(bytes.fromhex(w["payload"]))
        fr, _ = _enc(w["seq"], p)
        got = _feed_format(w["fmt"], tuple(w["stream"]), fr, ctx.rng, NMEA2000Decoder())
        ok = all(o == ("none",) for o in got[:-1]) and got[-1][0] == "msg" and got[-1][1] == int.from_bytes(bytes(p), "little")
        print("observed:", "property holds on this input" if ok else f"frames answered {[o[0] for o in got]}")
        return not ok
    if w.get("kind") == "two-dec":
        from nmea2000.decoder import NMEA2000Decoder
        key = tuple(w["stream"])
        fa, _ = _enc(w["seq"], list(bytes.fromhex(w["pa"])))
        fb, _ = _enc(w["seq"], list(bytes.fromhex(w["pb"])))
        bad = False
        for cut in range(1, len(fa)):
            other = NMEA2000Decoder()
            for f in fa[:cut]:
                c04.observe(other, c04.packet(key, f))
            d = NMEA2000Decoder()
            got = [c04.observe(d, c04.packet(key, f)) for f in fb]
            if not (all(o[0] == "none" for o in got[:-1]) and got[-1][0] == "msg"
                    and got[-1][1] == int.from_bytes(bytes.fromhex(w["pb"]), "little")):
                bad = True
        print("observed:", "a new decoder does not start empty" if bad else "property holds on this input")
        return bad
    if w.get("kind") == "mseq":
        from nmea2000.decoder import NMEA2000Decoder
        from nmea2000.encoder import NMEA2000Encoder
        bad = None
        for c0 in range(8):
            e, d = NMEA2000Encoder(), NMEA2000Decoder()
            e.sequence_counter = c0
            for j, (key, hx) in enumerate(w["messages"]):
                key, p = tuple(key), bytes.fromhex(hx)
                fr = e._encode_fast_message(key[0], 3, key[1], key[2], p)
                got = [c04.observe(d, c04.packet(key, f)) for f in fr]
                if not (all(o[0] == "none" for o in got[:-1]) and got[-1][0] == "msg" and got[-1][1] == int.from_bytes(p, "little")):
                    bad = (c0, j, [list(o)[:2] for o in got])
                    break
            if bad:
                break
        print("observed:", f"initial counter {bad[0]}: message {bad[1]} answered {bad[2]}" if bad else "property holds on this input")
        return bad is not None
    if w.get("kind") == "public" and "pgn" in w:
        r = _public_path(ctx, P, only=int(w["pgn"]))
        print("observed:", r[0]["what"] if r else "property holds on this input")
        return bool(r)
    r = search(ctx)
    print("observed:", r[0]["what"] if r else "property holds")
    return bool(r)
