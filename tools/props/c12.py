"""C12 — gateway clients deliver every decodable frame once, in order, for any chunking.

Tie between Stream.v and the code:
  (a) the real asyncio.StreamReader vs Stream.v's reader on random op sequences (feeds, eof, reads;
      small limits so that both LimitOverrun branches of readline are reached);
  (b) the REAL EByte / Actisense / Yacht Devices client classes on a virtual-time loop (subprocess,
      wall-clock watchdog) fed valid / malformed / unknown packets under many segmentations and
      callback behaviours; the event log becomes a label list accepted by the LTS of Stream.v with the
      real decoder's outcomes replayed as `decode`; delivered sequence, reader residue and the
      theorem's conclusion are recomputed by the kernel;  the Waveshare client takes part with its
      queue/consumer (its framing is Serial.v's, C20).
Search: the property's own oracle on all four real clients (model-independent packet list from a
plain Python framing of the whole stream, fed to a FRESH real decoder with the same settings).
"""
from __future__ import annotations
import json
from vlib import cz, clist, cbytes, cbool, ctuple, run_cases, distinct_count
import vloop_rxs as V

PROPS_FILES = ["props/C12.v"]
ALWAYS_SEARCH = True
RULE = ("reader cases: seeded op sequences (feed 0..20 bytes with LF-rich content, eof, readexactly/readline/read) "
        "against StreamReader(limit in {1,2,4,8,16,65536}); client cases: per client kind, streams of 4..30 packets "
        "(valid single-frame, valid fast-packet runs incl. shuffled/dropped frames, unknown PGNs, malformed: random "
        "bytes / garbage lines / whitespace variants / bad hex / empty lines / over-limit lines / the EByte banner), "
        "segmentations {1 byte, random sizes, all at once, cuts inside header, inside CR LF, inside AA 55}, feed "
        "scheduling {no yield, sleep(0), 3x sleep(0), 50 ms}, callbacks raising every k-th and sleeping/yielding "
        "every j-th call; a case is non-trivial when at least one message is delivered; distinct by (kind, stream, "
        "segmentation, callback pattern)")
TRUSTED = ["Stream.v is a hand model of asyncio.StreamReader (CPython 3.12.1 streams.py 415-758) and of "
           "ioclient._receive_impl/_receive_loop/_process_queue; tied to the code by the correspondence cases of this run",
           "asyncio scheduling: one LTS transition per atomic block; queue.put on an unbounded queue never suspends; "
           "a read suspends only when the buffer cannot satisfy it",
           "tools/vloop_rxs.py (virtual-time loop, fake writer, method wrappers producing the event log)",
           "the serial client's framing is not modelled here (Serial.v, C20); its queue/consumer is"]
ASSUMPTIONS = ["decode is an arbitrary state-passing function (Section variable); instantiated in the correspondence by "
               "the replay of the real decoder's outcomes",
               "text lines are ASCII and at most `limit` bytes before LF (theorem guard); non-ASCII input is Unmodelled",
               "EOF on a text/serial client is outside C12 (F-eofspin, C13): modelled as RxUnmodelled"]

IMPORTS = "From NV Require Import Base Stream SendModel CorrStream."
KINDS = ["ebyte", "actisense", "yd", "waveshare"]
BANNER = b"Sorry,Limited"


# ------------------------------------------------------------------ stream generation
class Gen:
    def __init__(self):
        from nmea2000.encoder import NMEA2000Encoder
        self.pool = V.build_pool()
        self.enc = NMEA2000Encoder()
        self.single = [m for m, n in self.pool if n == 1]
        self.fast = [m for m, n in self.pool if n > 1]

    def _retarget(self, rng, m):
        m.source = rng.choice([0, 1, 7, 35, 254])
        m.priority = rng.randrange(8)
        return m

    def valid(self, rng, kind):
        m = self._retarget(rng, rng.choice(self.single))
        return V.wire_rx(kind, m, self.enc, self._ts(rng), direction=rng.choice("RRT"))

    def fastrun(self, rng, kind):
        m = self._retarget(rng, rng.choice(self.fast))
        ps = V.wire_rx(kind, m, self.enc, self._ts(rng), direction=rng.choice("RRT"))
        r = rng.random()
        if len(ps) > 1 and r < 0.15:
            del ps[rng.randrange(len(ps))]          # lost frame
        elif len(ps) > 1 and r < 0.3:
            i = rng.randrange(len(ps) - 1)
            ps[i], ps[i + 1] = ps[i + 1], ps[i]     # reordered frames
        elif r < 0.4:
            ps.insert(rng.randrange(len(ps) + 1), ps[rng.randrange(len(ps))])   # duplicated frame
        return ps

    def _ts(self, rng):
        return "%02d:%02d:%02d.%03d" % (rng.randrange(24), rng.randrange(60), rng.randrange(60), rng.randrange(1000))

    def unknown(self, rng, kind):
        from nmea2000.encoder import NMEA2000Encoder
        pgn = rng.choice([130000, 65000, 127000, 99999, 59000])
        hdr = NMEA2000Encoder._build_header(pgn, rng.randrange(253), 255, rng.randrange(8))
        data = bytes(rng.getrandbits(8) for _ in range(8))
        if kind == "ebyte":
            return [bytes([0x88]) + hdr.to_bytes(4, "big") + data]
        if kind == "waveshare":
            from nmea2000.utils import calculate_canbus_checksum
            b = bytes([0xAA, 0x55, 1, 2, 1]) + hdr.to_bytes(4, "little") + bytes([8]) + data + b"\0"
            return [b + bytes([calculate_canbus_checksum(b)])]
        if kind == "yd":
            return [("%s R %08X %s\r\n" % (self._ts(rng), hdr, " ".join("%02X" % x for x in data))).encode()]
        n = (rng.randrange(253) << 12) | (255 << 4) | rng.randrange(8)
        return [("A000001.000 %05X %05X %s\r\n" % (n, pgn, data.hex().upper())).encode()]

    def badvalue(self, rng, kind):
        """A syntactically valid frame of a KNOWN PGN whose payload is boundary-heavy / truncated: the real
        decoder raises on a good share of these (ValueError above/below range, IndexError on an empty payload)."""
        from nmea2000.encoder import NMEA2000Encoder
        pgn = rng.choice([127250, 129025, 59904, 127245, 130306, 126992, 129029, 126996])
        dst = 255
        src, prio = rng.randrange(253), rng.randrange(8)
        hdr = NMEA2000Encoder._build_header(pgn, src, dst, prio)
        ln = rng.choice([0, 1, 3, 4, 8, 8, 8])
        data = bytes(rng.choice([0, 0xFF, 0x7F, 0x80, rng.getrandbits(8)]) for _ in range(8))
        if kind == "ebyte":
            return [bytes([0x80 | ln]) + hdr.to_bytes(4, "big") + data]
        if kind == "waveshare":
            from nmea2000.utils import calculate_canbus_checksum
            b = bytes([0xAA, 0x55, 1, 2, 1]) + hdr.to_bytes(4, "little") + bytes([ln]) + data + b"\0"
            return [b + bytes([calculate_canbus_checksum(b)])]
        if kind == "yd":
            return [("%s R %08X %s\r\n" % (self._ts(rng), hdr, " ".join("%02X" % x for x in data[:max(ln, 1)]))).encode()]
        n = (src << 12) | (dst << 4) | prio
        return [("A000001.000 %05X %05X %s\r\n" % (n, pgn, data[:max(ln, 1)].hex().upper())).encode()]

    def malformed(self, rng, kind, ascii_only=True):
        if kind == "ebyte":
            r = rng.random()
            if r < 0.5:
                p = bytes(rng.getrandbits(8) for _ in range(13))
            elif r < 0.75:
                p = bytes([rng.choice([0x80, 0x8F, 0x00, 0xFF])]) + bytes(rng.getrandbits(8) for _ in range(12))
            else:
                p = bytes(13) if rng.random() < 0.5 else b"\n" * 13
            return [p if p != BANNER else bytes(13)]
        if kind == "waveshare":
            r = rng.random()
            if r < 0.3:     # marker-free noise
                return [bytes(rng.choice([0, 1, 0x55, 0x54, 0xAB, 0xFF, 10]) for _ in range(rng.randrange(1, 30)))]
            if r < 0.5:     # noise ending in half a marker
                return [bytes(rng.getrandbits(7) for _ in range(rng.randrange(0, 6))) + b"\xaa"]
            p = bytearray(self.valid(rng, kind)[0])
            if r < 0.75:    # bad checksum
                p[19] ^= rng.randrange(1, 256)
            else:           # corrupted data byte (checksum then wrong) or marker inside data
                p[rng.randrange(10, 18)] ^= 0xFF
            return [bytes(p)]
        good = self.valid(rng, kind)[0].decode()
        body = good.rstrip("\r\n")
        opts = [
            "\r\n", "\n", "   \t \r\n", "hello world\r\n", "$GPGGA,123519,4807.038,N*47\r\n",
            body[: rng.randrange(1, max(2, len(body)))] + "\r\n",                     # truncated
            body.replace(" ", "  ", 1) + "  \r\n", "  \t" + body + "\r\n",             # whitespace variants (still valid)
            body + "\n", body + "\r\r\n", "\x1c" + body + "\x1f\r\n", "\x0b\x0c" + body + "\r\n",
            body[:-2] + "ZZ\r\n", body.replace("R", "X", 1) + "\r\n" if kind == "yd" else "B" + body[1:] + "\r\n",
            body + " 00 11 22 33 44 55 66 77 88 99\r\n", "A\r\n", "R\r\n", body.lower() + "\r\n",
        ]
        if not ascii_only:
            opts += [body + "\xc2\x85\r\n", "\xff\xfe" + body + "\r\n", body.replace(" ", "\xa0", 1) + "\r\n",
                     "\xe2\x80\x83" + body + "\r\n"]
        s = rng.choice(opts)
        return [s.encode("latin-1")]

    def stream(self, rng, kind, npk, ascii_only=True, p_bad=0.25):
        pkts = []
        while len(pkts) < npk:
            r = rng.random()
            if r < p_bad * 0.5:
                pkts += self.malformed(rng, kind, ascii_only)
            elif r < p_bad:
                pkts += self.badvalue(rng, kind)
            elif r < p_bad + 0.12:
                pkts += self.unknown(rng, kind)
            elif r < p_bad + 0.32 and self.fast:
                pkts += self.fastrun(rng, kind)
            else:
                pkts += self.valid(rng, kind)
        return pkts


def segment(rng, data: bytes, pkts, how):
    """Cut `data` into chunks. `how`: one | all | rand | hdr | crlf | marker."""
    n = len(data)
    if how == "one":
        return [data[i:i + 1] for i in range(n)]
    if how == "all":
        return [data]
    cuts = set()
    if how == "rand":
        k = rng.randrange(1, max(2, n // rng.choice([3, 9, 30, 100])))
        cuts = {rng.randrange(n + 1) for _ in range(k)}
        if rng.random() < 0.3:
            cuts |= {c for c in cuts}   # keep possible duplicates -> empty chunks below
    else:
        pos = 0
        for p in pkts:
            if how == "hdr":
                cuts.add(pos + rng.randrange(1, 5))
                if rng.random() < 0.3:
                    cuts.add(pos)
            elif how == "crlf":
                i = p.find(b"\r\n")
                if i >= 0:
                    cuts.add(pos + i + 1)
                elif p.endswith(b"\n"):
                    cuts.add(pos + len(p) - 1)
                else:
                    cuts.add(pos + len(p))           # binary formats: exactly at the packet boundary
            elif how == "marker":
                i = p.find(b"\xaa\x55")
                cuts.add(pos + (i + 1 if i >= 0 else min(len(p), 1)))
                if rng.random() < 0.3:
                    cuts.add(pos + 19)
            pos += len(p)
    cs = sorted(c for c in cuts if 0 < c < n)
    out, a = [], 0
    for c in cs:
        out.append(data[a:c])
        a = c
    out.append(data[a:])
    if how == "rand" and rng.random() < 0.2:
        out.insert(rng.randrange(len(out) + 1), b"")   # an empty chunk
    return out


HOWS = {"ebyte": ["one", "all", "rand", "hdr", "crlf", "rand"], "actisense": ["one", "all", "rand", "hdr", "crlf", "rand"],
        "yd": ["one", "all", "rand", "hdr", "crlf", "rand"], "waveshare": ["one", "all", "rand", "hdr", "marker", "rand"]}


def make_spec(rng, gen, kind, how=None, npk=None, ascii_only=True, special=None):
    how = how or rng.choice(HOWS[kind])
    npk = npk or rng.choice([4, 8, 12, 20, 30])
    pkts = gen.stream(rng, kind, npk, ascii_only)
    spec = {"mode": "rx", "kind": kind, "how": how}
    if special == "banner" and kind == "ebyte":
        pkts.insert(rng.randrange(len(pkts) + 1), BANNER)
        spec["settle"] = 100.0
    if special == "limit" and kind in ("actisense", "yd"):
        spec["limit"] = 64
        long = b"X" * rng.choice([65, 66, 100, 200]) + b"\r\n"
        pkts.insert(rng.randrange(len(pkts) + 1), long)
        spec["settle"] = 50.0
    if special == "longline" and kind == "actisense":
        # a valid line far longer than the usual ones: a 134-byte fast-packet payload (product information), ~290 characters
        body = (2100).to_bytes(2, "little") + (1234).to_bytes(2, "little") + b"Model ABC".ljust(32) + b"SW 1.2.3".ljust(32) + \
            b"HW rev 4".ljust(32) + b"SN 000123456".ljust(32) + bytes([1, 2])
        long = ("A000124.000 01FF6 1F014 " + body.hex().upper() + "\r\n").encode()
        pkts.insert(rng.randrange(len(pkts) + 1), long)
    if special == "aa55" and kind == "waveshare":
        # a packet whose LAST byte (the checksum) is 0xAA ends a read; a stray 0x55 follows; then more packets
        good = [j for j, x in enumerate(pkts) if len(x) == 20 and x[:2] == b"\xaa\x55"]
        k = rng.choice(good) if good else 0
        q = bytearray(pkts[k]) if good else bytearray(20)
        q[18] = (q[18] + (0xAA - sum(q[2:19])) % 256) % 256
        q[19] = sum(q[2:19]) & 0xFF
        if good and q[19] == 0xAA:
            pkts[k] = bytes(q)
            pkts.insert(k + 1, rng.choice([b"\x55", b"\x55\x00", b"\x55\x55"]))
            how = "crlf"                                      # binary formats: cut exactly at every segment boundary
            spec["how"] = how
    if special == "tail":
        pkts.append(pkts[0][: max(1, len(pkts[0]) // 2)])      # an unterminated tail stays in the reader
    if special == "eof" and kind == "ebyte":
        if rng.random() < 0.7:
            pkts.append(pkts[0][: rng.randrange(1, 13)])       # the stream ends inside a packet
        spec["eof"] = True
        spec["settle"] = 100.0
    data = b"".join(pkts)
    chunks = segment(rng, data, pkts, how)
    assert b"".join(chunks) == data
    spec["chunks"] = [c.hex() for c in chunks]
    g = rng.choice([0, 1, 1, 2, 3, "mix"])
    spec["gaps"] = [rng.choice([0, 1, 2, 3]) if g == "mix" else g for _ in chunks]
    if how == "one" and len(chunks) > 400:
        spec["gaps"] = [rng.choice([0, 0, 0, 1]) for _ in chunks]
    spec["cb"] = {"raise_every": rng.choice([0, 0, 1, 2, 3]), "sleep_every": rng.choice([0, 0, 2, 4]),
                  "yield_every": rng.choice([0, 0, 3]), "sleep_s": rng.choice([0.01, 0.25, 3.0]),
                  "send_every": rng.choice([0, 0, 0, 2, 3])}
    if rng.random() < 0.1:
        spec["opts"] = {"exclude_pgns": [127250, 129029]}
    spec["special"] = special
    return spec


# ------------------------------------------------------------------ the property's oracle (model independent)
def ref_frame(kind, data: bytes, limit=65536):
    """Whole-stream framing written directly from the wire formats' definitions."""
    if kind == "ebyte":
        return [data[i:i + 13] for i in range(0, len(data) - 12, 13)]
    if kind in ("actisense", "yd"):
        parts = data.split(b"\n")
        return [(p + b"\n").decode("utf-8", errors="ignore").strip() for p in parts[:-1]]
    out, buf = [], data
    while True:
        i = buf.find(b"\xaa\x55")
        if i < 0 or i + 20 > len(buf):
            return out
        out.append(buf[i:i + 20])
        buf = buf[i + 20:]


def fresh_expected(kind, packets, opts):
    from nmea2000.decoder import NMEA2000Decoder
    dec = NMEA2000Decoder(exclude_pgns=opts.get("exclude_pgns", []), include_pgns=opts.get("include_pgns", []),
                          exclude_manufacturer_code=[], include_manufacturer_code=[], preferred_units={},
                          dump_to_file=None, dump_pgns=[], build_network_map=False)
    fn = getattr(dec, V.DECODE_FN[kind])
    out = []
    for p in packets:
        try:
            m = fn(p)
        except Exception:  # noqa: BLE001
            continue
        if m is not None:
            out.append(json.loads(json.dumps(V.canon_msg(m))))
    return out


def oracle(spec, res):
    """None if the property holds on this session, else (key suffix, description)."""
    kind = spec["kind"]
    if res.get("hang"):
        return "hang", "the client did not finish the session (event loop monopolised or stuck)"
    if res.get("error"):
        return "harness-error", "session failed: " + res["error"][:200]
    data = b"".join(bytes.fromhex(c) for c in spec["chunks"])
    packets = ref_frame(kind, data)
    sp = spec.get("special")
    if sp == "banner":
        k = packets.index(BANNER) if BANNER in packets else len(packets)
        packets = packets[:k]
    if spec.get("limit") and kind in ("actisense", "yd"):
        # delivery is only claimed up to the first over-limit line (theorem guard); everything before it must arrive
        raws = data.split(b"\n")[:-1]
        k = next((i for i, p in enumerate(raws) if len(p) > spec["limit"]), len(raws))
        packets = packets[:k]
    exp = fresh_expected(kind, packets, spec.get("opts", {}))
    ev = res["events"]
    cbs = [e[1] for e in ev if e[0] == "cbs"]
    ends = [e for e in ev if e[0] == "cbe"]
    if any(i < 0 for i in cbs):
        return "foreign-message", "the callback received an object the client's decoder did not return"
    if len(set(cbs)) != len(cbs):
        return "duplicate", f"a message was delivered twice: callback order {cbs[:40]}"
    if cbs != sorted(cbs):
        return "reorder", f"messages delivered out of wire order: {cbs[:40]}"
    got = [res["msgs"][i] for i in cbs]
    if got != exp:
        j = next((x for x in range(min(len(got), len(exp))) if got[x] != exp[x]), min(len(got), len(exp)))
        return ("delivery-mismatch",
                f"delivered {len(got)} messages, a fresh decoder returns {len(exp)} for the stream's packets; first "
                f"difference at #{j}: got {json.dumps(got[j])[:160] if j < len(got) else None} expected "
                f"{json.dumps(exp[j])[:160] if j < len(exp) else None}")
    if len(ends) != len(cbs) or any(e[2] == "cancel" for e in ends):
        return "callback-unfinished", "a callback invocation was cut short"
    f = res["final"]
    if not f["queue_empty"]:
        return "stalled", "messages left in the queue although the session had settled"
    if sp in (None, "tail", "longline", "aa55") and (f["state"] != "CONNECTED" or f["nopen"] != 1):
        return "spurious-disconnect", f"state {f['state']} after {f['nopen']} connection(s) although the link never failed"
    if sp == "banner" and BANNER in ref_frame(kind, data) and f["nopen"] < 2:
        return "banner-ignored", "the Sorry,Limited banner did not lead to a reconnect"
    if sp == "eof" and f["nopen"] < 2:
        return "eof-ignored", "end of stream on the EByte link did not lead to a reconnect"
    return None


def run_and_judge(specs):
    res = V.run_jobs(specs)
    out = []
    for s, r in zip(specs, res):
        out.append((s, r, oracle(s, r)))
    return out


def _witness(spec, verdict):
    return {"key": f"rx:{spec['kind']}:{verdict[0]}", "kind": "rx", "spec": spec,
            "what": f"{spec['kind']} client, segmentation '{spec.get('how')}', {len(spec['chunks'])} chunks, callbacks "
                    f"{spec.get('cb')}: {verdict[1]}"}


# ------------------------------------------------------------------ Coq literals
def c_cbo(o):
    return {"ret": "CbReturn", "raise": "CbRaise", "susp": "CbSuspend"}[o]


def _cb_labels(evs, i, start, end):
    """evs[i] is a 'cbs' event: emit the start label now, mark the matching 'cbe' for the end label."""
    idx = evs[i][1]
    j = i + 1
    susp = False
    while j < len(evs) and not (evs[j][0] == "cbe" and evs[j][1] == idx):
        susp = susp or evs[j][0] == "cbsusp"
        j += 1
    out = evs[j][2] if j < len(evs) else "ret"
    if j < len(evs):
        evs[j] = ["cbe_", idx, out, susp]
    return f"{start} {c_cbo('susp' if susp else out)}"


def rx_case_literal(spec, res):
    """Event log -> labels, decode table, observations for chk_rx / chk_rx_fault."""
    kind = spec["kind"]
    chunks = [bytes.fromhex(c) for c in spec["chunks"]]
    evs = [list(e) for e in res["events"]]
    labels, table, deliv = [], [], []
    faulted = False
    for i in range(len(evs)):
        e = evs[i]
        if e[0] == "feed":
            labels.append(f"LFeed {cbytes(chunks[e[1]])}")
        elif e[0] == "eof":
            labels.append("LEof")
        elif e[0] == "pkt":
            arg = bytes.fromhex(e[1]) if kind == "ebyte" else e[1].encode("latin-1")
            table.append(ctuple(cbytes(arg), cz(e[2])))
        elif e[0] == "rxi" and e[1] == "ok":
            labels.append("LRx")
        elif e[0] == "rxi" and e[1] == "exc":
            faulted = True
            labels.append("LRx")
            if e[2] == "Exception":
                labels.append("LBannerWake")
        elif e[0] == "cbs":
            deliv.append(e[1])
            labels.append(_cb_labels(evs, i, "LCbStart", "LCbEnd"))
        elif e[0] == "cbe_" and e[3]:
            labels.append(f"LCbEnd {c_cbo(e[2])}")
    f = res["final"]
    status = 2 if faulted else 0
    kz = 0 if kind == "ebyte" else 1
    limit = spec.get("limit") or 65536
    left = None if faulted else f["reader_left"]      # after a fault the client is on a new link
    blocked = bool(f["rx_blocked"]) and not faulted
    return labels, table, deliv, status, kz, limit, left, blocked


# ------------------------------------------------------------------ correspondence
def _reader_jobs(ctx, n):
    rng = ctx.rng
    jobs = []
    for _ in range(n):
        limit = rng.choice([1, 2, 4, 8, 16, 65536])
        ops = []
        eofed = False
        for _ in range(rng.randrange(5, 40)):
            r = rng.random()
            if eofed and r < 0.4 and rng.random() < 0.8:
                r = 0.5 + r
            if r < 0.4:
                k = rng.choice([0, 1, 1, 2, 3, 5, 13, 20])
                alphabet = [10, 10, 13, 65, 66, 32, 0, 255]
                ops.append(["feed", bytes(rng.choice(alphabet) for _ in range(k)).hex()])
            elif r < 0.45 or (r < 0.5 and eofed):
                ops.append(["eof"])
                eofed = True
            elif r < 0.65:
                ops.append(["readline"])
            elif r < 0.85:
                ops.append(["readexactly", rng.choice([0, 1, 3, 13, 20])])
            else:
                ops.append(["read", rng.choice([0, 1, 5, 100])])
        jobs.append({"mode": "reader", "limit": limit, "ops": ops, "with_buffer": True})
    return jobs


def _rop(op):
    if op[0] == "feed":
        return f"OpFeed {cbytes(bytes.fromhex(op[1]))}"
    if op[0] == "eof":
        return "OpEof"
    if op[0] == "readline":
        return "OpReadLine"
    if op[0] == "readexactly":
        return f"OpReadExactly {op[1]}"
    return f"OpRead {op[1]}"


def _robs(o):
    k = o[0]
    if k == "ok":
        return "ObOk"
    if k == "assert":
        return "ObAssert"
    if k == "wait":
        return "ObWait"
    if k == "limit":
        return "ObLimit"
    if k == "data":
        return f"(ObData {cbytes(bytes.fromhex(o[1]))})"
    if k == "incomplete":
        return f"(ObIncomplete {cbytes(bytes.fromhex(o[1]))})"
    return "ObAssert"   # an unexpected exception class: forces a disagreement


def gen(ctx):
    """C12 for the code of this run (EByte client): C12_delivery instantiated with the composed decoder of the
    regenerated tables (tools/templates/OblC12.v)"""
    import gen as G
    g = G.ensure_gen()
    if not g["ok"]:
        ctx.extra_obligations.append({"name": "translation of nmea2000/pgns.py + canboat.json", "ok": False,
                                      "detail": g.get("refused") or g.get("error")})
        ctx.hints.append({"kind": "translator", "detail": g.get("refused") or g.get("error")})
        return
    ok, out = G.compile_template("OblC12")
    for nm in G.theorem_names("OblC12"):
        ctx.extra_obligations.append({"name": f"OblC12.v:{nm}", "ok": ok, "detail": out[-800:] if not ok else ""})
    if not ok:
        ctx.hints.append({"kind": "tables", "diag": "OblC12.v: " + " ".join(out.split())[-800:]})


def correspond(ctx):
    reports = []
    # ---- (a) StreamReader
    jobs = _reader_jobs(ctx, ctx.n(150, 4000))
    res = V.run_jobs(jobs)
    cases, kinds = [], {}
    for j, r in zip(jobs, res):
        if "out" not in r:
            raise RuntimeError("reader session failed: " + json.dumps(r)[:300])
        items = []
        for op, o in zip(j["ops"], r["out"]):
            kinds[o[0]] = kinds.get(o[0], 0) + 1
            items.append(ctuple(_rop(op), ctuple(_robs(o), cbytes(bytes.fromhex(o[-1])))))
        cases.append(ctuple(cz(j["limit"]), clist(items)))
    r = run_cases("C12", "reader", IMPORTS, "Z * list (rop * (robs * list Z))", "chk_reader", cases, shard=100)
    r.update(name="asyncio.StreamReader vs Stream.v (op sequences)",
             distinct_nontrivial=distinct_count([json.dumps(j) for j in jobs]),
             failing_cases=[{"job": jobs[k], "observed": res[k]} for k in r["failing"][:5]],
             samples=[{"limit": jobs[0]["limit"], "ops": jobs[0]["ops"][:6], "observed": res[0]["out"][:6]}],
             distribution={"sequences": len(jobs), "ops": sum(len(j["ops"]) for j in jobs), "observations": kinds})
    reports.append(r)

    # ---- (b) real clients
    gen = Gen()
    rng = ctx.rng
    specs = []
    per = ctx.n(36, 900)
    for kind in KINDS:
        for how in HOWS[kind]:
            for _ in range(max(1, per // len(HOWS[kind]))):
                specs.append(make_spec(rng, gen, kind, how=how, npk=rng.choice([4, 8, 12, 20] if how == "one" else [4, 8, 12, 20, 30])))
        for _ in range(ctx.n(3, 20)):
            specs.append(make_spec(rng, gen, kind, special="tail"))
    for _ in range(ctx.n(4, 30)):
        specs.append(make_spec(rng, gen, "ebyte", special="eof"))
        specs.append(make_spec(rng, gen, "ebyte", special="banner"))
        specs.append(make_spec(rng, gen, rng.choice(["actisense", "yd"]), special="limit"))
        specs.append(make_spec(rng, gen, "actisense", special="longline"))
        specs.append(make_spec(rng, gen, "waveshare", special="aa55"))
    judged = run_and_judge(specs)
    ctx._c12_judged = judged
    cases_rx, meta_rx, cases_q, meta_q = [], [], [], []
    dist = {"sessions": len(specs), "by_kind": {}, "by_how": {}, "packets_seen": 0, "delivered": 0, "decode_raised": 0,
            "decode_none": 0, "callbacks_raised": 0, "callbacks_suspended": 0, "special": {}}
    for spec, res, verdict in judged:
        kind = spec["kind"]
        dist["by_kind"][kind] = dist["by_kind"].get(kind, 0) + 1
        dist["by_how"][spec["how"]] = dist["by_how"].get(spec["how"], 0) + 1
        if spec.get("special"):
            dist["special"][spec["special"]] = dist["special"].get(spec["special"], 0) + 1
        if "events" not in res or res.get("hang") or res.get("error"):
            cases_rx.append(None)
            meta_rx.append((spec, res))
            continue
        ev = res["events"]
        dist["packets_seen"] += sum(1 for e in ev if e[0] == "pkt")
        dist["decode_raised"] += sum(1 for e in ev if e[0] == "pkt" and e[2] == -2)
        dist["decode_none"] += sum(1 for e in ev if e[0] == "pkt" and e[2] == -1)
        dist["delivered"] += sum(1 for e in ev if e[0] == "cbs")
        dist["callbacks_raised"] += sum(1 for e in ev if e[0] == "cbe" and e[2] == "raise")
        dist["callbacks_suspended"] += sum(1 for e in ev if e[0] == "cbsusp")
        if kind == "waveshare":
            qev, deliv = [], []
            evs = [list(e) for e in ev]
            for i in range(len(evs)):
                e = evs[i]
                if e[0] == "pkt" and e[2] >= 0:
                    qev.append(f"QPut {cz(e[2])}")
                elif e[0] == "cbs":
                    deliv.append(e[1])
                    qev.append(_cb_labels(evs, i, "QStart", "QEnd"))
                elif e[0] == "cbe_" and e[3]:
                    qev.append(f"QEnd {c_cbo(e[2])}")
            cases_q.append(ctuple(clist(qev), clist(cz(x) for x in deliv)))
            meta_q.append((spec, res))
            continue
        labels, table, deliv, status, kz, limit, left_lit, blocked = rx_case_literal(spec, res)
        meta_rx.append((spec, res))
        if left_lit is None:
            cases_rx.append(("fault", ctuple(ctuple(cz(kz), cz(limit)), clist(labels), clist(table),
                                             ctuple(clist(cz(x) for x in deliv), cz(status)))))
        else:
            cases_rx.append(("run", ctuple(ctuple(cz(kz), cz(limit)), clist(labels), clist(table),
                                           ctuple(clist(cz(x) for x in deliv), cz(status), cz(left_lit), cbool(blocked)))))
    hung = [m for c, m in zip(cases_rx, meta_rx) if c is None]
    run_l = [(c[1], m) for c, m in zip(cases_rx, meta_rx) if c is not None and c[0] == "run"]
    flt_l = [(c[1], m) for c, m in zip(cases_rx, meta_rx) if c is not None and c[0] == "fault"]
    r = run_cases("C12", "rx", IMPORTS, "rx_case", "chk_rx", [c for c, _ in run_l], shard=12)
    r.update(name="real EByte/Actisense/YachtDevices clients vs the receive LTS (trace acceptance + delivery)",
             distinct_nontrivial=distinct_count([json.dumps(m[0], sort_keys=True) for _, m in run_l
                                                 if any(e[0] == "cbs" for e in m[1]["events"])]),
             failing_cases=[{"spec": run_l[k][1][0]} for k in r["failing"][:5]],
             samples=[{"kind": run_l[0][1][0]["kind"], "how": run_l[0][1][0]["how"],
                       "events": run_l[0][1][1]["events"][:8]}] if run_l else [],
             distribution=dist)
    if hung:
        r["errors"] = r.get("errors", []) + [f"{len(hung)} session(s) hung or failed: " + json.dumps(hung[0][1])[:300]]
        r["failing_cases"] = r.get("failing_cases", []) + [{"spec": h[0]} for h in hung[:3]]
    reports.append(r)
    # faulted sessions (banner, over-limit line): status and delivery only
    prelude = ("Definition chk_rx_fault (c : (Z * Z) * list rxlabel * list (list Z * Z) * (list Z * Z)) : bool :=\n"
               "  let '(kl, ls, table, obs) := c in let '(kz, limit) := kl in let '(deliv, status) := obs in\n"
               "  match rx_run nat Z (tdecode table) (kind_of kz) (rx_init nat Z limit O) ls with\n"
               "  | None => false\n"
               "  | Some g => llz_eqb (seen g) (map fst table) && lz_eqb (delivered g) deliv &&\n"
               "              (rxstat_code (rxs g) =? status) && match q g with [] => true | _ => false end\n"
               "  end.")
    r = run_cases("C12", "rxfault", IMPORTS, "(Z * Z) * list rxlabel * list (list Z * Z) * (list Z * Z)", "chk_rx_fault",
                  [c for c, _ in flt_l], shard=12, prelude=prelude)
    r.update(name="real clients vs the receive LTS on sessions that end in the banner / an over-limit line",
             distinct_nontrivial=len(flt_l), failing_cases=[{"spec": flt_l[k][1][0]} for k in r["failing"][:5]],
             samples=[], distribution={"sessions": len(flt_l)})
    reports.append(r)
    r = run_cases("C12", "queue", IMPORTS, "list qev * list Z", "chk_queue", cases_q, shard=40)
    r.update(name="real Waveshare client vs the queue/consumer model (framing: C20)",
             distinct_nontrivial=distinct_count([json.dumps(m[0], sort_keys=True) for m in meta_q]),
             failing_cases=[{"spec": meta_q[k][0]} for k in r["failing"][:5]], samples=[],
             distribution={"sessions": len(cases_q)})
    reports.append(r)
    return reports


# ------------------------------------------------------------------ search / replay
def search(ctx):
    out = []
    judged = list(getattr(ctx, "_c12_judged", []))
    for h in ctx.hints:
        for c in h.get("cases", []):
            if isinstance(c, dict) and "spec" in c:
                judged += run_and_judge([c["spec"]])
    gen = Gen()
    rng = ctx.rng
    extra = []
    n = ctx.n(8, 400)
    for kind in KINDS:
        for _ in range(n):
            extra.append(make_spec(rng, gen, kind, ascii_only=(rng.random() < 0.5)))
    judged += run_and_judge(extra)
    ctx.notes.append(f"search: {len(judged)} sessions judged by the property's oracle on the real clients")
    seen = set()
    for spec, res, verdict in judged:
        if verdict is None:
            continue
        w = _witness(spec, verdict)
        if w["key"] in seen:
            continue
        seen.add(w["key"])
        out.append(w)
    return out


def replay(ctx, data):
    w = data.get("witness", data)
    spec = w["spec"]
    (s, r, verdict), = run_and_judge([spec])
    print("observed:", verdict[1] if verdict else "property holds on this session")
    if verdict:
        ev = r.get("events", [])
        print("  callback order:", [e[1] for e in ev if e[0] == "cbs"][:60])
    return verdict is not None
