"""C15 — JSON round-trips to an equivalent, re-encodable message; the dump is faithful.

Tie: Message.v (to_tree / of_tree / dump_match / run) vs the real to_json() text parsed with the standard
json module, the real from_json(), the real encoders on both messages and the real dump file after close()."""
from __future__ import annotations
import datetime as _dt
import json
import math
import os
import tempfile
from vlib import cz, cbytes, cbool, clist, ctuple, cstr_z, cfloat, run_cases, distinct_count
from props import c17 as H
from props.c17 import (Unrepresentable, msg_lit, addr_lit, NumProxy, Md5Proxy, new_decoder, decode, db, payloads, line,
                       fstr_table)
from props import c18 as U

PROPS_FILES = ["props/C15.v"]
ALWAYS_SEARCH = True
RULE = ("messages = real decoder output for every definition of canboat.json x payload classes (all-zero, all-ones = "
        "absent, random incl. longer variable-length payloads, one field at a boundary value, NaN in the FLOAT fields), "
        "with and without a claimed source identity, with and without network map / unit preferences; observed = "
        "json.loads(to_json()) as a tree, from_json(to_json()) as a message, encode_actisense of both; dump: histories of "
        "15-40 lines through decoders with dump filters by number, by id (random letter case), mixed, empty and dumping "
        "off, incl. undecodable lines and a claimed NAME above 64 bits (to_json raises), observed = returned messages and "
        "the parsed lines of the file after close(); non-trivial = message has a bytes/date/time/float/absent value, "
        "resp. history writes at least one line; distinct by message / (config, history)")
TRUSTED = ["Message.v: to_tree / of_tree / dump_match / finish / run are a hand model of message.py 99-114 and decoder.py "
           "57, 463-471, tied to the code by the correspondence cases of this run",
           "the standard json module as the reader of orjson's text"]
ASSUMPTIONS = ["orjson's text is valid JSON denoting to_tree m, and doubles / 64-bit integers survive the text round trip "
               "(exercised by parsing every text with the standard json module, not proved)",
               "F-nan-json guard: C15_fields_partial excludes messages carrying a non-finite double (C15_full is proved false)",
               "a single-frame payload has at most 8 bytes (an address claim handed in pre-assembled with more bytes gives a "
               "NAME above 64 bits, which orjson refuses: to_tree = Err, nothing is returned or dumped)"]

IMPORTS = "From NV Require Import Base Message CorrMessage.\nFrom Coq Require Import PrimFloat."


# ------------------------------------------------------------------ literals
def jlit(x):
    if x is None:
        return "JNull"
    if isinstance(x, bool):
        return f"(JBool {cbool(x)})"
    if isinstance(x, int):
        return f"(JInt {cz(x)})"
    if isinstance(x, float):
        if math.isnan(x) or math.isinf(x):
            raise Unrepresentable("non-finite number in JSON")
        return f"(JFloat {cfloat(x)})"
    if isinstance(x, str):
        return f"(JStr {cstr_z(x)})"
    if isinstance(x, list):
        return f"(JList {clist(jlit(y) for y in x)})"
    if isinstance(x, dict):
        return f"(JObj {clist(ctuple(cstr_z(k), jlit(v)) for k, v in x.items())})"
    raise Unrepresentable(type(x).__name__)


def _loads(text):
    def bad(c):
        raise ValueError("non-standard JSON constant " + c)
    return json.loads(text, parse_constant=bad)


def _interesting(m):
    return any(isinstance(f.value, (bytes, float, _dt.date, _dt.time)) or f.value is None for f in m.fields)


def _nan_payloads(rng):
    """NaN / inf / ordinary bit patterns in the FLOAT fields"""
    out = []
    for d in db():
        fl = [f for f in d["Fields"] if f["FieldType"] == "FLOAT" and "BitOffset" in f]
        if not fl:
            continue
        nb = H._nbytes(d)
        for f in fl:
            for bits in (0x7FC00000, 0xFFC00001, 0x7F800000, 0xFF800000, 0x3F800000, 0x00000001, 0x80000000):
                out.append((d, H._set(0, f["BitOffset"], 32, bits), nb))
    return out


def _outcome(fn, *a):
    try:
        return ("ok", fn(*a))
    except Exception as e:  # noqa: BLE001
        return ("exc", type(e).__name__)


def _finite(m):
    return not any(isinstance(v, float) and not math.isfinite(v) for f in m.fields for v in (f.value, f.raw_value))


# ------------------------------------------------------------------ correspondence
def correspond(ctx):
    from nmea2000.message import NMEA2000Message
    from nmea2000.encoder import NMEA2000Encoder
    from nmea2000.consts import PhysicalQuantities as PQ
    rng = ctx.rng
    enc = NMEA2000Encoder()
    reports = []
    decs = [new_decoder(), new_decoder(build_network_map=True),
            new_decoder(build_network_map=True, preferred_units={PQ.TEMPERATURE: "c", PQ.ANGLE: "DEG", PQ.PRESSURE: "bar",
                                                                  PQ.SPEED: "kts"})]
    for dcd in decs:
        decode(dcd, *H.CLAIM, src=1)
    # a pre-assembled 9-byte address claim: NAME above 64 bits (source 9)
    big = (60928, int.from_bytes(bytes([1, 2, 3, 4, 5, 6, 7, 0x88, 0x99]), "little"), 9)
    cases, raw, encbad, encn = [], [], [], 0
    unrep = 0

    def one(m, info):
        nonlocal unrep, encn
        try:
            lit = msg_lit(m)
            try:
                text = m.to_json()
            except Exception:  # noqa: BLE001
                cases.append(ctuple(lit, "None"))
                raw.append({**info, "to_json": "raised"})
                return
            tree = _loads(text)
            p = NMEA2000Message.from_json(text)
            cases.append(ctuple(lit, f"(Some {ctuple(jlit(tree), msg_lit(p))})"))
            raw.append({**info, "interesting": _interesting(m)})
        except Unrepresentable:
            unrep += 1
            return
        # real encoders on both (outside the kernel: plain comparison of the two outcomes)
        if _finite(m):
            encn += 1
            a, b = _outcome(enc.encode_actisense, m), _outcome(enc.encode_actisense, p)
            if a[0] != b[0] or (a[0] == "ok" and a[1] != b[1]):
                encbad.append({**info, "original": a, "parsed": b})

    with Md5Proxy(), NumProxy():
        for d, p, n, kw, i, m in H.messages(ctx, rng, ctx.n(1, 6), ctx.n(1, 6), decs):
            one(m, {"pgn": d["PGN"], "payload": p.to_bytes(n, "little").hex(), "decoder": i, **kw})
        for d, p, n in _nan_payloads(rng):
            m = decode(decs[0], d["PGN"], p, n)
            if m is not None and not isinstance(m, Exception):
                one(m, {"pgn": d["PGN"], "payload": p.to_bytes(n, "little").hex(), "float-pattern": True})
        for dcd in decs[:2]:
            m = decode(dcd, *big, src=9)
            if m is not None and not isinstance(m, Exception):
                one(m, {"pgn": big[0], "payload": big[1].to_bytes(9, "little").hex(), "big-claim": True})
            m = decode(dcd, 127250, 0x0102030405060708, 8, src=9)
            if m is not None and not isinstance(m, Exception):
                one(m, {"pgn": 127250, "payload": "0807060504030201", "src": 9, "after-big-claim": True})
    r = run_cases("C15", "json", IMPORTS, "msg * option (jtree * msg)", "chk_json", cases,
                  shard=max(40, len(cases) // 16 + 1))
    r.update(name="to_json (parsed by the json module) vs to_tree; from_json vs of_tree; hypotheses msg_wf / reads_exact "
                  "lib_reads on decoder output",
             distinct_nontrivial=distinct_count([c for c, x in zip(cases, raw) if x.get("interesting")]),
             failing_cases=[raw[k] for k in r["failing"][:20]],
             samples=[raw[k] for k in (0, len(raw) // 2, len(raw) - 1)] if raw else [],
             distribution={"messages": len(raw), "definitions": len({x["pgn"] for x in raw}),
                           "to_json_raised": sum(1 for x in raw if x.get("to_json")),
                           "float_patterns": sum(1 for x in raw if x.get("float-pattern")),
                           "unrepresentable_skipped": unrep})
    reports.append(r)
    reports.append({"name": "encode_actisense(message) = encode_actisense(from_json(to_json(message))) (same bytes or both fail; "
                            "messages without non-finite doubles)",
                    "n": encn, "failing": list(range(len(encbad))), "errors": [], "wall_s": 0, "distinct_nontrivial": encn,
                    "failing_cases": encbad[:20], "samples": []})
    reports.extend(_corr_dump(ctx))
    return reports


KINDS = ["empty", "number", "id", "id-case", "mixed", "off", "miss"]


def _dump_configs(rng, ids, pgns, k=None):
    def rc(s):
        return "".join(ch.upper() if rng.random() < 0.5 else ch.lower() for ch in s)
    k = k or rng.choice(KINDS)
    if k == "empty":
        return k, True, []
    if k == "off":
        return k, False, [rng.choice(pgns)]
    if k == "number":
        return k, True, rng.sample(pgns, min(len(pgns), rng.randint(1, 3)))
    if k == "id":
        return k, True, rng.sample(ids, min(len(ids), rng.randint(1, 3)))
    if k == "id-case":
        return k, True, [rc(x) for x in rng.sample(ids, min(len(ids), rng.randint(1, 3)))]
    if k == "mixed":
        return k, True, [rng.choice(pgns), rc(rng.choice(ids)), 999999, "noSuchId"]
    return k, True, [424242, "nothingMatches"]


def _history(rng, n):
    """lines: mostly decodable single messages of a few definitions, some undecodable, claims (one above 64 bits)"""
    defs = [d for d in db() if d["PGN"] in (127250, 127488, 130312, 129025, 65280, 127505, 130306, 126992, 129033, 127257,
                                             130823, 65288, 127508, 130842, 129038)]
    out = []
    for _ in range(n):
        x = rng.random()
        if x < 0.08:
            out.append(line(*H.CLAIM, src=rng.choice([1, 2])))
        elif x < 0.12:
            out.append(line(60928, rng.getrandbits(72) | (1 << 71), 9, src=3))
        elif x < 0.18:
            out.append(line(rng.choice([1, 59905, 130000]), rng.getrandbits(64), 8))   # unknown PGN
        else:
            d = rng.choice(defs)
            p, nb = rng.choice(payloads(d, rng, 2, 2))
            out.append(line(d["PGN"], p, nb, src=rng.choice([1, 2, 3]), prio=rng.getrandbits(3),
                            ts=rng.choice(["2020-01-01-00:00:00.000", "2021-06-07-08:09:10.111"])))
    ids = sorted({d["Id"] for d in defs})
    pgns = sorted({d["PGN"] for d in defs})
    return out, ids, pgns


def _run_real(lines, dump_on, dump_pgns, net, prefs, flt=None):
    """returned messages and the dump file's lines after close()"""
    fd, path = tempfile.mkstemp(prefix="msg_dump_", suffix=".jsonl", dir="/tmp")
    os.close(fd)
    os.unlink(path)
    try:
        dec = new_decoder(dump_to_file=path if dump_on else None, dump_pgns=list(dump_pgns), build_network_map=net,
                          preferred_units=prefs, **{k: list(v) for k, v in (flt or {}).items()})
        ret = []
        for ln in lines:
            try:
                m = dec.decode_basic_string(ln, True)
            except Exception:  # noqa: BLE001
                m = None
            if m is not None:
                ret.append(m)
        dec.close()
        text = open(path).read() if dump_on else ""
        return dec, ret, text
    finally:
        if os.path.exists(path):
            os.unlink(path)


def _corr_dump(ctx):
    rng = ctx.rng
    cases, raw, idc, idraw = [], [], [], []
    unrep = 0
    for it in range(ctx.n(14, 84)):
        lines, ids, pgns = _history(rng, rng.randint(15, 40))
        kind, dump_on, dump_pgns = _dump_configs(rng, ids, pgns, KINDS[it % len(KINDS)])
        net = rng.random() < 0.5
        from nmea2000.consts import PhysicalQuantities as PQ
        full = {PQ.TEMPERATURE: rng.choice(["c", "F"]), PQ.ANGLE: "Deg", PQ.SPEED: "KTS", PQ.PRESSURE: rng.choice(["bar", "PSI"])}
        prefs = full if it % 2 == 0 else (U.random_prefs(rng) if rng.random() < 0.4 else {})
        with Md5Proxy() as mp, NumProxy() as npx:
            dec, ret, text = _run_real(lines, dump_on, dump_pgns, net, prefs)
            # the same history through a plain decoder: what the per-PGN functions built, and the addressing
            plain = new_decoder(build_network_map=net)
            evs = []
            for ln in lines:
                m = None
                try:
                    m = plain.decode_basic_string(ln, True)
                except Exception:  # noqa: BLE001
                    pass
                if m is not None:
                    evs.append(m)
            mt, nt = mp.table(), npx.tables()
        try:
            ev_lit = clist(ctuple(addr_lit(m.source, m.destination, m.priority, m.timestamp, m.source_iso_name, m.raw_can_data),
                                  _strip_lit(m)) for m in evs)
            cfg = (f"(mkCfg {cbool(net)} {U.prefs_lit(dec.preferred_units)} {cbool(dump_on)} "
                   f"{clist(cz(x) for x in dec.dump_include_pgns)} {clist(cbytes(x.encode()) for x in dec.dump_include_pgns_ids)})")
            try:
                if text and not text.endswith("\n"):
                    raise ValueError("dump does not end with a newline")
                obs_lines = clist(jlit(H_loads(t)) for t in text.splitlines())
            except ValueError:
                obs_lines = "[JNull]"      # not one JSON document per line: cannot equal the model's lines
            obs = ctuple(clist(msg_lit(m) for m in ret), obs_lines)
            ft = fstr_table(evs)
            cases.append(ctuple(ctuple(cfg, ev_lit), ctuple(ctuple(mt, ft), nt), obs))
            raw.append({"kind": kind, "dump_pgns": dump_pgns, "network_map": net, "prefs": {k.name: v for k, v in prefs.items()},
                        "lines": lines, "written": len(text.splitlines()), "returned": len(ret)})
            strs = [x for x in dump_pgns if isinstance(x, str)]
            idc.append(ctuple(clist(cbytes(x.encode()) for x in strs), clist(cbytes(x.encode()) for x in dec.dump_include_pgns_ids)))
            idraw.append(strs)
        except Unrepresentable:
            unrep += 1
    r = run_cases("C15", "dump", IMPORTS,
                  "(dcfg * list (addr * msg)) * ((md5_tbl * fstr_tbl) * (round_tbl * deg_tbl)) * (list msg * list jtree)",
                  "chk_run", cases, shard=4)
    r.update(name="dump: returned messages and parsed lines of the dump file after close() vs run of Message.v",
             distinct_nontrivial=distinct_count([c for c, x in zip(cases, raw) if x["written"]]),
             failing_cases=[{k: v for k, v in raw[k].items()} for k in r["failing"][:5]],
             samples=[{k: v for k, v in raw[0].items() if k != "lines"}] if raw else [],
             distribution={"histories": len(raw), "by_kind": {k: sum(1 for x in raw if x["kind"] == k) for k in
                                                              ("empty", "number", "id", "id-case", "mixed", "off", "miss")},
                           "lines_written": sum(x["written"] for x in raw), "messages_returned": sum(x["returned"] for x in raw),
                           "unrepresentable_skipped": unrep})
    r2 = run_cases("C15", "dumpids", IMPORTS, "list bytes * list bytes", "chk_dump_ids", idc)
    r2.update(name="split_pgn_list lower-casing of the dump ids vs split_ids", distinct_nontrivial=distinct_count(idc),
              failing_cases=[idraw[k] for k in r2["failing"][:10]], samples=idraw[:2])
    return [r, r2]


def H_loads(t):
    return _loads(t)


def _strip_lit(m):
    """the message as the per-PGN function returned it: addressing attributes at their constructor defaults"""
    import copy
    c = copy.copy(m)
    c.source = c.destination = c.priority = 0
    c.timestamp = ""
    c.source_iso_name = None
    c.hash = None
    c.raw_can_data = None
    return msg_lit(c)


# ------------------------------------------------------------------ property oracle on the real code
def _rendered(v):
    if isinstance(v, (bytes, bytearray)):
        return bytes(v).hex()
    if isinstance(v, _dt.datetime):
        return v.isoformat()
    if isinstance(v, (_dt.date, _dt.time)):
        return v.isoformat()
    return v


def _same(a, b):
    if type(a) is not type(b):
        return False
    if isinstance(a, float):
        return (a == b and math.copysign(1, a) == math.copysign(1, b)) or (a != a and b != b)
    return a == b


def _check_json(w):
    from nmea2000.message import NMEA2000Message
    from nmea2000.encoder import NMEA2000Encoder
    by = bytes.fromhex(w["payload"])
    from nmea2000.consts import PhysicalQuantities as _PQ
    dec = new_decoder(build_network_map=bool(w.get("net")),
                      preferred_units={getattr(_PQ, k): v for k, v in (w.get("prefs") or {}).items()})
    if w.get("claim"):
        decode(dec, *H.CLAIM, src=w.get("src", 1))
    m = decode(dec, w["pgn"], int.from_bytes(by, "little"), len(by), **{k: w[k] for k in ("src", "dst", "prio") if k in w})
    if m is None or isinstance(m, Exception):
        return None
    base = {**w, "kind": "json"}
    try:
        text = m.to_json()
    except Exception as e:  # noqa: BLE001
        return {**base, "key": "json:to_json-raises", "what": f"PGN {w['pgn']} payload {w['payload']}: to_json raised {e!r}"}
    try:
        _loads(text)
    except Exception as e:  # noqa: BLE001
        return {**base, "key": "json:invalid-text", "what": f"PGN {w['pgn']} payload {w['payload']}: text is not valid JSON: {e!r}"}
    try:
        p = NMEA2000Message.from_json(text)
    except Exception as e:  # noqa: BLE001
        return {**base, "key": "json:from_json-raises", "what": f"PGN {w['pgn']} payload {w['payload']}: from_json raised {e!r}"}
    for k in ("PGN", "id", "source", "destination", "priority"):
        if not _same(getattr(m, k), getattr(p, k)):
            return {**base, "key": f"json:header:{k}", "what": f"PGN {w['pgn']}: {k} {getattr(m, k)!r} parsed back as {getattr(p, k)!r}"}
    if len(m.fields) != len(p.fields):
        return {**base, "key": "json:field-count", "what": f"PGN {w['pgn']}: {len(m.fields)} fields parsed back as {len(p.fields)}"}
    for f, g in zip(m.fields, p.fields):
        if f.id != g.id:
            return {**base, "key": "json:field-id", "what": f"PGN {w['pgn']}: field id {f.id!r} parsed back as {g.id!r}"}
        for k in ("value", "raw_value"):
            a, b = _rendered(getattr(f, k)), getattr(g, k)
            if not _same(a, b):
                nonfin = isinstance(a, float) and not math.isfinite(a)
                return {**base, "key": "json:value-changed:" + ("non-finite-float" if nonfin else type(a).__name__),
                        "what": f"PGN {w['pgn']} payload {w['payload']}: field {f.id} {k} {a!r} parsed back as {b!r}"}
    enc = NMEA2000Encoder()
    a, b = _outcome(enc.encode_actisense, m), _outcome(enc.encode_actisense, p)
    if a[0] != b[0] or (a[0] == "ok" and a[1] != b[1]):
        return {**base, "key": "json:re-encode-differs",
                "what": f"PGN {w['pgn']} payload {w['payload']}: original encodes to {a}, parsed message to {b}"}
    return None


def _check_dump(w):
    """w: lines, dump_pgns, net, prefs. Expected: the JSON of every returned message matching the filter, in order."""
    from nmea2000.consts import PhysicalQuantities as PQ
    prefs = {getattr(PQ, k): v for k, v in (w.get("prefs") or {}).items()}
    dec, ret, text = _run_real(w["lines"], True, w["dump_pgns"], bool(w.get("net")), prefs, w.get("filter"))
    nums = [x for x in w["dump_pgns"] if isinstance(x, int)]
    strs = [x.lower() for x in w["dump_pgns"] if isinstance(x, str)]
    exp = []
    for m in ret:
        if not w["dump_pgns"] or m.PGN in nums or m.id.lower() in strs:
            exp.append(m.to_json())
    got = text.split("\n")
    base = {**w, "kind": "dump"}
    if text and got[-1] != "":
        return {**base, "key": "dump:last-line-unterminated", "what": "dump file does not end with a newline"}
    got = got[:-1] if text else []
    if got != exp:
        byid = bool(strs) and not nums
        k = "dump:by-id" if byid else ("dump:mixed" if strs else ("dump:by-number" if nums else "dump:empty-filter"))
        if w.get("filter"):
            k += ":with-pgn-filter"
        return {**base, "key": k,
                "what": (f"decoder filter {w['filter']}, " if w.get("filter") else "") +
                        f"dump_pgns={w['dump_pgns']}: {len(ret)} messages returned, {len(exp)} match the filter, "
                        f"{len(got)} lines written" + ("" if len(got) != len(exp) else " (different content/order)")}
    return None


def _check_entry(w):
    """the binary entry points, given the frame as bytes and as bytearray (what the serial client cuts out of its receive
    buffer): the returned message serialises, parses back to the same header/fields, and is dumped"""
    from nmea2000.message import NMEA2000Message
    from nmea2000.encoder import NMEA2000Encoder
    src = new_decoder()
    try:
        m0 = src.decode_basic_string(w["line"], True)
    except Exception:  # noqa: BLE001
        return None
    if m0 is None:
        return None
    enc = NMEA2000Encoder()
    try:
        frames = {"decode_usb": enc.encode_usb(m0), "decode_tcp": enc.encode_ebyte(m0)}
    except Exception:  # noqa: BLE001
        return None
    base = {**w, "kind": "entry"}
    for meth, pk in frames.items():
        for typ in (bytes, bytearray):
            fd, path = tempfile.mkstemp(prefix="msg_dump_", suffix=".jsonl", dir="/tmp")
            os.close(fd)
            os.unlink(path)
            try:
                dec = new_decoder(dump_to_file=path)
                m = None
                try:
                    for f in pk:
                        m = getattr(dec, meth)(typ(f))
                except Exception as e:  # noqa: BLE001
                    return {**base, "key": f"entry:{typ.__name__}:decode-raises",
                            "what": f"{meth}({typ.__name__}) of the frames of {w['line']!r} raised {e!r} (dump enabled)"}
                dec.close()
                text = open(path).read() if os.path.exists(path) else ""
            finally:
                if os.path.exists(path):
                    os.unlink(path)
            if m is None:
                continue
            try:
                t = m.to_json()
                _loads(t)
                p2 = NMEA2000Message.from_json(t)
            except Exception as e:  # noqa: BLE001
                return {**base, "key": f"entry:{typ.__name__}:json-raises",
                        "what": f"message returned by {meth}({typ.__name__}) for {w['line']!r}: to_json / from_json raised {e!r}"}
            if (p2.PGN, p2.id, p2.source, p2.destination, p2.priority, len(p2.fields)) != \
                    (m.PGN, m.id, m.source, m.destination, m.priority, len(m.fields)):
                return {**base, "key": f"entry:{typ.__name__}:json-header", "what": f"{meth}({typ.__name__}): header changed through JSON"}
            if text != t + "\n":
                return {**base, "key": f"entry:{typ.__name__}:dump",
                        "what": f"{meth}({typ.__name__}) for {w['line']!r}: dump file holds {len(text.splitlines())} line(s), expected "
                                "exactly the JSON of the returned message"}
    return None


def nan_witness():
    d = [x for x in db() if x["PGN"] == 129045][0]
    f = [x for x in d["Fields"] if x["Id"] == "rotationInX"][0]
    p = H._set(0, f["BitOffset"], 32, 0x7FC00000)
    return {"kind": "json", "pgn": 129045, "payload": p.to_bytes(H._nbytes(d), "little").hex()}


def dumpid_witness():
    return {"kind": "dump", "dump_pgns": ["furunoHeave"], "net": False,
            "lines": ["2020-01-01-00:00:00.000,2,65280,1,255,8,3f,9f,dc,ff,ff,ff,ff,ff",
                      "2020-01-01-00:00:00.000,2,127250,1,255,8,01,10,27,ff,7f,ff,7f,fd"]}


def search(ctx):
    rng = ctx.rng
    out, seen = [], set()

    def emit(r):
        if r and r["key"] not in seen:
            seen.add(r["key"])
            out.append(r)
    for d in db():
        for (p, n) in payloads(d, rng, ctx.n(1, 6), ctx.n(1, 6)):
            emit(_check_json({"kind": "json", "pgn": d["PGN"], "payload": p.to_bytes(n, "little").hex(),
                              "net": rng.random() < 0.5, "claim": rng.random() < 0.5, "src": rng.choice([1, 4, 0, 255]),
                              "dst": rng.choice([255, 255, 0, 17, 254]), "prio": rng.choice([0, 2, 7]),
                              "prefs": rng.choice([{}, {}, {"TEMPERATURE": "C", "PRESSURE": "Bar", "ANGLE": "deg", "SPEED": "kts"},
                                                   {"TEMPERATURE": "F", "PRESSURE": "PSI"}])}))
    for d, p, n in _nan_payloads(rng):
        emit(_check_json({"kind": "json", "pgn": d["PGN"], "payload": p.to_bytes(n, "little").hex()}))
    emit(_check_json(nan_witness()))
    emit(_check_dump(dumpid_witness()))
    from nmea2000.consts import PhysicalQuantities as PQ
    for it in range(ctx.n(30, 200)):
        lines, ids, pgns = _history(rng, rng.randint(10, 30))
        # without the >64-bit claim (to_json of later messages of that source raises by design, see ASSUMPTIONS)
        lines = [ln for ln in lines if not ln.split(",")[2] == "60928" or ln.split(",")[5] == "8"]
        kind, dump_on, dump_pgns = _dump_configs(rng, ids, pgns, KINDS[it % len(KINDS)])
        prefs = ({PQ.TEMPERATURE: "C", PQ.ANGLE: "deg", PQ.SPEED: "kts", PQ.PRESSURE: "Bar"} if it % 2 == 0 else
                 (U.random_prefs(rng) if rng.random() < 0.3 else {}))
        emit(_check_dump({"kind": "dump", "dump_pgns": dump_pgns, "net": rng.random() < 0.5, "lines": lines,
                          "prefs": {k.name: v for k, v in prefs.items()}}))
    for it in range(ctx.n(3, 20)):
        lines, _ids, _pgns = _history(rng, 12)
        for ln in lines:
            if ln.split(",")[2] != "60928":
                emit(_check_entry({"kind": "entry", "line": ln}))
    # the decoder's own include / exclude lists (by number and by id) together with dumping: the dump holds the RETURNED
    # messages that match the dump filter - nothing of what the decoder withholds
    for it in range(ctx.n(16, 120)):
        lines, _ids, _pgns = _history(rng, rng.randint(10, 30))
        lines = [ln for ln in lines if not ln.split(",")[2] == "60928" or ln.split(",")[5] == "8"]
        _dec, ret, _t = _run_real(lines, False, [], False, {})
        kinds = sorted({(m.PGN, m.id) for m in ret})
        if len(kinds) < 2:
            continue
        a, b = rng.sample(kinds, 2)

        def rc(x):
            return "".join(ch.upper() if rng.random() < 0.5 else ch.lower() for ch in x)
        flt = [{"exclude_pgns": [rc(a[1])]}, {"exclude_pgns": [a[0]]}, {"include_pgns": [rc(b[1])]}, {"include_pgns": [b[0], rc(a[1])]},
               {"exclude_pgns": [rc(a[1]), b[0]]}][it % 5]
        dump = [[], [a[0], b[0]], [rc(a[1]), rc(b[1])], [a[0], rc(b[1])]][(it // 5) % 4]
        emit(_check_dump({"kind": "dump", "dump_pgns": dump, "net": False, "lines": lines, "prefs": {}, "filter": flt}))
    # non-ASCII text in dumped messages (STRING_LAU fields, UTF-16 and UTF-8 coded): the dump lines must be exactly
    # the JSON of the returned messages, whatever characters it contains
    uni = ["2021-01-30-20:43:21.684,6,126998,1,255,19,07,01,68,65,6C,6C,6F,0c,00,77,00,F3,00,72,00,6C,00,64,00",
           "2021-01-30-20:43:21.684,6,126998,2,255,%d,%s" % (2 + 2 + len("Señor Müller \u05e9 \u03a9 \u4e2d".encode("utf-16-le")) + 2 + 2,
               ",".join("%02x" % b for b in (bytes([2 + len("Señor Müller \u05e9 \u03a9 \u4e2d".encode("utf-16-le")), 0])
                                              + "Señor Müller \u05e9 \u03a9 \u4e2d".encode("utf-16-le") + bytes([2, 1, 2, 1])))),
           "2021-01-30-20:43:21.684,6,126998,3,255,%d,%s" % (2 + len("wórld \U0001f600".encode("utf-8")) + 4,
               ",".join("%02x" % b for b in (bytes([2 + len("wórld \U0001f600".encode("utf-8")), 1])
                                              + "wórld \U0001f600".encode("utf-8") + bytes([2, 1, 2, 1])))),
           "2020-01-01-00:00:00.000,2,127250,1,255,8,01,10,27,ff,7f,ff,7f,fd"]
    for dp in ([], [126998], ["configurationInformation"], [127250, "CONFIGURATIONinformation"]):
        emit(_check_dump({"kind": "dump", "dump_pgns": dp, "net": False, "lines": uni, "prefs": {}}))
    # mixed filters built from what the history really returns: one message kind listed by number, ANOTHER by id
    # (any letter case) — each must be dumped
    for it in range(ctx.n(12, 100)):
        lines, _ids, _pgns = _history(rng, rng.randint(10, 30))
        lines = [ln for ln in lines if not ln.split(",")[2] == "60928" or ln.split(",")[5] == "8"]
        _dec, ret, _t = _run_real(lines, False, [], False, {})
        kinds = sorted({(m.PGN, m.id) for m in ret})
        if len({k[0] for k in kinds}) < 2:
            continue
        a = rng.choice(kinds)
        b = rng.choice([k for k in kinds if k[0] != a[0]])
        bid = "".join(ch.upper() if rng.random() < 0.5 else ch.lower() for ch in b[1])
        cfgs = [[a[0], bid], [bid, a[0]], [a[0], bid, 999999, "noSuchId"]]
        emit(_check_dump({"kind": "dump", "dump_pgns": cfgs[it % 3], "net": rng.random() < 0.5, "lines": lines, "prefs": {}}))
    return out


def replay(ctx, data):
    w = data.get("witness", data)
    if w.get("kind") == "entry":
        r = _check_entry(w)
        print("observed:", r["what"] if r else "property holds on this input")
        return r is not None
    clean = {k: v for k, v in w.items() if k not in ("key", "what")}
    if w.get("kind") == "json":
        r = _check_json(clean)
    elif w.get("kind") == "dump":
        r = _check_dump(clean)
    else:
        return True
    print("observed:", r["what"] if r else "property holds on this input")
    return r is not None
