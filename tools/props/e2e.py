"""e2e — END-TO-END correspondence of the composed decoder model (coq/theories/EndToEnd.v) with the real
NMEA2000Decoder: packet bytes / text line in, returned message with all its fields out, on whole histories.

Library module (called from the C01 and C07 checks): correspond(ctx), search(ctx), replay(ctx, data).

Tie: ONE real NMEA2000Decoder per case is driven through its five entry points on a seeded history; per call the
outcome (None / exception class / message: PGN, id, source, destination, priority, identity of the source,
serialisation of every field with its metadata) becomes a Gallina literal and the kernel decides, call after call,
`e2e_step <tables regenerated from /repo> cfg state input = observed` (tools/templates/CorrEndToEnd.v: chk_e2e),
threading the MODEL's state.  Nothing of the real run instantiates the model except what datetime.strptime
answered for the time-stamp token of a text line (Section variable ts_ok of Wire.v)."""
from __future__ import annotations
import contextlib
import datetime as _dt
import math
import os
import random
import struct

import vlib
from vlib import cz, clist, cbool, ctuple, run_cases, distinct_count
import gen as G
import obs as O
import payloads as PL
from props import c06 as W
from props import c07 as C7
from props import c10 as H

RULE = ("a case = (constructor arguments, history of 10-40 calls of ONE decoder's entry points with the clock input); "
        "configurations: no filter / exclude / include by number, id (random letter case), mixed, with/without the address "
        "claim, manufacturer lists, network map on/off (tools/props/c10.py: gen_config); traffic: 2-4 sources, single-frame "
        "PGNs, fast-packet PGNs frame by frame (interleaved streams, duplicates, reordering, loss, stale counters), address "
        "claims (known / unknown manufacturer, undecodable, re-claims), unknown PGNs, PGNs whose is_fast raises, truncated and "
        "mutated packets / lines; entry points: decode_tcp mainly, decode_usb, decode_yacht_devices_string, "
        "decode_basic_string frame by frame and already combined, decode_actisense_string (whole payloads); "
        "non-trivial = at least one message returned and one call not returned; distinct by (configuration, history)")
TRUSTED = ["EndToEnd.v composes the existing models (Wire.v front-ends, DecoderCtl.v ctl_step, Dispatch.v run_disp, Fields.v "
           "run_ddef on the tables translated from /repo by tools/tr_pgns.py); the glue (function lookup by PGN number, byte "
           "order of the data, already_combined, priority, conversion of the decoded message to what IsoName reads) is tied to "
           "the code only by the correspondence cases of this run",
           "datetime.strptime is a Section variable (ts_ok); each call of a case instantiates it with the answer the real "
           "strptime gave in that call",
           "the serialisation of a message (ser_msg in EndToEnd.v, ser_chunks/pack here) is written twice, in Gallina and in "
           "Python; a discrepancy between the two shows as a disagreement, never as an agreement"]
ASSUMPTIONS = ["not compared: time stamp, raw_can_data, hash (C17), preferred units (C18), dump file (C15), logging",
               "a call on which the model stops (non-ASCII line or text field, see EndToEnd.v header) ends the comparison of "
               "its history; such cases are counted"]

IMPORTS = ("From NV Require Import Base Header Wire DecoderCtl CorrDecoderCtl EndToEnd.\n"
           "From NVGen Require Import CorrEndToEnd.")
CLAIM = 60928
FMT = ["WTcp", "WUsb", "WYd", "WActi", "(WBasic false)", "(WBasic true)"]      # kind 0..5
FMT_NAME = ["tcp", "usb", "yd", "acti", "basic", "basic+combined"]
EPOCH = _dt.date(1970, 1, 1)


# ------------------------------------------------------------------ serialisation (the same function as EndToEnd.v: ck_msg)
def _nat(x: int):
    n = (x.bit_length() + 7) // 8
    return [(32, n), (8 * n, x)]


def _int(z: int):
    return [(8, 1 if z < 0 else 0)] + _nat(abs(z))


def _str(s: str):
    return _nat(int.from_bytes(b"\x01" + s.encode("utf-8"), "big"))


def _ostr(s):
    return [(8, 0)] if s is None else [(8, 1)] + _str(s)


def _blob(b: bytes):
    return [(32, len(b)), (8 * len(b), int.from_bytes(b, "big"))]     # = one (8, byte) chunk per byte


def _value(v):
    if v is None:
        return [(8, 0)]
    if isinstance(v, bool):
        return [(8, 1)] + _int(int(v))
    if isinstance(v, int):
        return [(8, 1)] + _int(v)
    if isinstance(v, float):
        if math.isnan(v):
            return [(8, 3)]
        return [(8, 2), (64, struct.unpack(">Q", struct.pack(">d", v))[0])]
    if isinstance(v, str):
        return [(8, 4)] + _blob(v.encode("utf-8"))
    if isinstance(v, (bytes, bytearray)):
        return [(8, 5)] + _blob(bytes(v))
    if isinstance(v, _dt.date) and not isinstance(v, _dt.datetime):
        return [(8, 6)] + _int((v - EPOCH).days)
    if isinstance(v, _dt.time):
        return [(8, 7)] + _int(v.hour * 3600 + v.minute * 60 + v.second)
    raise TypeError(f"unexpected value type {type(v)}")


def ser_chunks(m) -> list:
    """chunks (width in bits, value) of a real NMEA2000Message, field by field, metadata included"""
    ttl = None if m.ttl is None else int(m.ttl.total_seconds() * 1000)
    out = _int(m.PGN) + _str(m.id) + _str(m.description) + ([(8, 0)] if ttl is None else [(8, 1)] + _int(ttl))
    out.append((32, len(m.fields)))
    for f in m.fields:
        pq = None if f.physical_quantities is None else f.physical_quantities.name
        out += (_str(f.id) + _str(f.name) + _ostr(f.description) + _ostr(f.unit_of_measurement) + _value(f.value)
                + _value(f.raw_value) + _ostr(pq) + _str(f.type.name) + [(8, 1 if f.part_of_primary_key else 0)])
    return out


def pack(chunks) -> int:
    acc = 1
    for w, v in chunks:
        assert 0 <= v < (1 << w) or (w == 0 and v == 0)
        acc = (acc << w) + v
    return acc


def ser_msg(m) -> int:
    return pack(ser_chunks(m))


class _Reader:
    """reads the serialisation back (evidence that it is uniquely decodable: used by unser / the self-check)"""

    def __init__(self, n: int):
        b = n.to_bytes((n.bit_length() + 7) // 8, "big")
        assert b[:1] == b"\x01"
        self.b, self.i = b, 1

    def take(self, k):
        r = self.b[self.i:self.i + k]
        assert len(r) == k
        self.i += k
        return r

    def u8(self):
        return self.take(1)[0]

    def u32(self):
        return int.from_bytes(self.take(4), "big")

    def nat(self):
        return int.from_bytes(self.take(self.u32()), "big")

    def int_(self):
        s = self.u8()
        assert s in (0, 1)
        v = self.nat()
        return -v if s else v

    def str_(self):
        x = self.nat()
        b = x.to_bytes((x.bit_length() + 7) // 8, "big")
        assert b[:1] == b"\x01"
        return b[1:].decode("utf-8")

    def ostr(self):
        return self.str_() if self.u8() else None

    def value(self):
        t = self.u8()
        if t == 0:
            return ("none",)
        if t == 1:
            return ("int", self.int_())
        if t == 2:
            return ("float", int.from_bytes(self.take(8), "big"))
        if t == 3:
            return ("nan",)
        if t in (4, 5):
            return ("text" if t == 4 else "bytes", self.take(self.u32()))
        assert t in (6, 7)
        return ("date" if t == 6 else "time", self.int_())


def unser(n: int):
    """the content of a serialised message: (pgn, id, description, ttl, [field tuples])"""
    r = _Reader(n)
    pgn, mid, descr = r.int_(), r.str_(), r.str_()
    ttl = r.int_() if r.u8() else None
    fields = []
    for _ in range(r.u32()):
        fields.append((r.str_(), r.str_(), r.ostr(), r.ostr(), r.value(), r.value(), r.ostr(), r.str_(), bool(r.u8())))
    assert r.i == len(r.b)
    return pgn, mid, descr, ttl, fields


def _plain(v):
    if v is None:
        return ("none",)
    if isinstance(v, (bool, int)):
        return ("int", int(v))
    if isinstance(v, float):
        return ("nan",) if math.isnan(v) else ("float", struct.unpack(">Q", struct.pack(">d", v))[0])
    if isinstance(v, str):
        return ("text", v.encode("utf-8"))
    if isinstance(v, (bytes, bytearray)):
        return ("bytes", bytes(v))
    if isinstance(v, _dt.date):
        return ("date", (v - EPOCH).days)
    return ("time", v.hour * 3600 + v.minute * 60 + v.second)


def content(m):
    ttl = None if m.ttl is None else int(m.ttl.total_seconds() * 1000)
    return (m.PGN, m.id, m.description, ttl,
            [(f.id, f.name, f.description, f.unit_of_measurement, _plain(f.value), _plain(f.raw_value),
              None if f.physical_quantities is None else f.physical_quantities.name, f.type.name,
              bool(f.part_of_primary_key)) for f in m.fields])


# ------------------------------------------------------------------ observing the real decoder
FRONT = {"decode_tcp", "decode_usb", "decode_yacht_devices_string", "decode_actisense_string", "decode_basic_string",
         "_extract_header"}


def classify(e: BaseException) -> str:
    """the exception as the layer that raised it names it in its model (innermost frame inside the package)"""
    tb, last = e.__traceback__, None
    pkg = os.path.join(os.path.realpath(vlib.REPO), "nmea2000") + os.sep
    while tb is not None:
        fn = os.path.realpath(tb.tb_frame.f_code.co_filename)
        if fn.startswith(pkg):
            last = (os.path.basename(fn), tb.tb_frame.f_code.co_name)
        tb = tb.tb_next
    if last is None:
        return "EAssert"
    f, fun = last
    if f == "decoder.py" and fun in FRONT:
        return W.ekind(e)                       # Wire.v: ValueError EMalformed, IndexError EIndex, Exception EOther, OverflowError ERange
    if f == "decoder.py":
        return "EIndex" if isinstance(e, IndexError) else ("ERange" if isinstance(e, ValueError) else "EOther")
    if f == "message.py":
        return "ERange" if isinstance(e, ValueError) else "EOther"     # DecoderCtl.v: EValue
    return O.err_of(e)                          # pgns.py / utils.py: Fields.v


class Clock:
    """datetime proxy for nmea2000.decoder: records what strptime was asked"""

    def __init__(self):
        import nmea2000.decoder as D
        self.D, self.real = D, D.datetime
        self.calls = []
        outer = self

        class DT:
            def now(self_inner):
                return outer.real.now()

            def strptime(self_inner, s, f):
                no = W.FMTS.index(f) if f in W.FMTS else -1
                try:
                    r = outer.real.strptime(s, f)
                except Exception:
                    outer.calls.append((no, s, False))
                    raise
                outer.calls.append((no, s, True))
                return r
        self.proxy = DT()

    @contextlib.contextmanager
    def on(self):
        self.D.datetime = self.proxy
        try:
            yield
        finally:
            self.D.datetime = self.real


def observe(dec, clock: Clock, kind: int, inp, win: bool):
    """one call of an entry point of the real decoder; returns (observation, strptime record)"""
    dec.started_at = _dt.datetime.now() if win else _dt.datetime.now() - _dt.timedelta(hours=1)
    clock.calls.clear()
    try:
        with clock.on():
            if kind == 0:
                r = dec.decode_tcp(bytes(inp))
            elif kind == 1:
                r = dec.decode_usb(bytes(inp))
            elif kind == 2:
                r = dec.decode_yacht_devices_string(inp)
            elif kind == 3:
                r = dec.decode_actisense_string(inp)
            else:
                r = dec.decode_basic_string(inp, kind == 5)
    except Exception as e:  # noqa: BLE001
        ob = ("err", classify(e), type(e).__name__)
    else:
        if r is None:
            ob = ("none",)
        else:
            ch = ser_chunks(r)
            assert unser(pack(ch)) == content(r), "serialisation does not read back"
            ob = ("msg", r.PGN, r.id, r.source, r.destination, r.priority, H.iso_tuple(r.source_iso_name), ch)
    ts = clock.calls[-1] if clock.calls else None
    return ob, ts


def run_real(cfg, hist):
    """hist: [(kind, input, win)]"""
    out = {"ctor": None, "obs": [], "ts": [], "map": [], "reasm": []}
    try:
        dec = H.make_decoder(cfg)
    except Exception as e:  # noqa: BLE001
        out["ctor"] = type(e).__name__
        return out
    clock = Clock()
    for kind, inp, win in hist:
        ob, ts = observe(dec, clock, kind, inp, win)
        out["obs"].append(ob)
        out["ts"].append(ts)
    out["map"] = [(s, H.iso_tuple(i)) for s, i in dec.source_to_iso_name.items()]
    out["reasm"] = H.snapshot_reasm(dec)
    return out


# ------------------------------------------------------------------ Gallina literals
class Interner:
    def __init__(self):
        self.k = {}

    def chunk(self, w, v):
        if w <= 32:
            return f"({w},{v})"
        if (w, v) not in self.k:
            self.k[(w, v)] = f"K{len(self.k)}_"
        return self.k[(w, v)]

    def prelude(self):
        return "\n".join(f"Definition {n} : Z * Z := ({w}, {hex(v)})." for (w, v), n in self.k.items())


def cinput(kind, inp):
    if isinstance(inp, (bytes, bytearray)):
        return clist(str(x) for x in inp)
    return clist(str(ord(c)) for c in inp)


def cts(ts):
    if ts is None:
        return "None"
    return "(Some " + ctuple(cz(ts[0]), clist(str(ord(c)) for c in ts[1]), cbool(ts[2])) + ")"


def cobs(o, K: Interner):
    if o[0] == "none":
        return "XNone"
    if o[0] == "err":
        return f"(XErr {o[1]})"
    _, pgn, mid, src, dst, prio, iso, chunks = o
    body = "(pack " + clist(K.chunk(w, v) for w, v in chunks) + ")"
    return f"(XMsg (M {cz(pgn)} {H.cs(mid)} {cz(src)} {cz(dst)} {H.copt_iso(iso)} {body}) {cz(prio)})"


def case_literal(cfg, hist, ob, K):
    ok = ob["ctor"] is None
    parts = [clist(H.citem(x) for x in cfg["ex"]), clist(H.citem(x) for x in cfg["inc"]),
             clist(H.cs(x) for x in cfg["exm"]), clist(H.cs(x) for x in cfg["incm"]), cbool(cfg["nm"]),
             "None" if ok else f"(Some {H.cerr(ob['ctor'])})",
             clist(ctuple(FMT[k], cinput(k, i), cbool(w), cts(ts)) for (k, i, w), ts in zip(hist, ob["ts"])) if ok else "[]",
             clist(cobs(o, K) for o in ob["obs"]),
             clist(ctuple(cz(s), H.ciso(e)) for s, e in ob["map"]),
             clist(ctuple(ctuple(cz(k[0]), cz(k[1]), cz(k[2])), H.crec(*v)) for k, v in ob["reasm"])]
    return "(E " + "\n    ".join(parts) + ")"


def _has_non_ascii(inp) -> bool:
    return isinstance(inp, str) and any(ord(c) > 127 for c in inp)


# ------------------------------------------------------------------ traffic
TEXT_FAST = 126996      # product information: four 32-byte ASCII strings


def _ascii_payload(rng, pgn, n):
    """fast-packet payload whose text fields stay inside the model (ASCII, padding 00 / FF / '@')"""
    head = bytes(rng.getrandbits(8) for _ in range(4))
    body = bytearray()
    while len(body) < n - 4:
        w = rng.choice([b"", b"ABC-12", b"Navigator 3000", b"v1.02", b" x ", b"@", b"\x00", b"\xff\xff", b"model\t7"])
        body += w + bytes([rng.choice([0, 0, 0xFF, 0x20, 0x40])] * rng.randint(0, 12))
    return head + bytes(body[:n - 4])


def tcp_history(ctx, rng, profile):
    """configuration and history of EByte packets from the shared generator of C10/C11/C16, with text payloads kept
    inside the model and a few mutated packets"""
    cfg, hist = H.gen_case(ctx, rng, profile)
    out = []
    for pkt, win in hist:
        dl = pkt[0] & 15
        if dl < 8 and rng.random() < 0.5:        # what follows the announced length is not data: garbage, or nothing
            pkt = pkt[:5 + dl] + (bytes(rng.getrandbits(8) for _ in range(8 - dl)) if rng.random() < 0.7 else b"")
        if rng.random() < 0.04:
            pkt = W.mutate_bin(pkt, rng, 0)
        out.append((0, pkt, win))
    return cfg, out


def _frames_of(hist):
    """(ident, wire data, win) of the EByte packets of a history (harness arithmetic)"""
    out = []
    for _k, pkt, win in hist:
        if len(pkt) < 5:
            continue
        out.append((int.from_bytes(pkt[1:5], "big"), bytes(pkt[5:5 + (pkt[0] & 15)]), win))
    return out


def convert_history(rng, hist, kind):
    """the same CAN frames through another frame-by-frame entry point (usb, yd, basic without combining)"""
    fmt = {1: 1, 2: 2, 4: 4}[kind]
    out = []
    for ident, data, win in _frames_of(hist):
        if fmt == 2 and not data:
            continue
        inp = W.render(fmt, ident & 0x1FFFFFFF, data, rng, C7.ref_extract, rng.random() < (0.6 if len(data) < 8 else 0.15))
        r = rng.random()
        if r < 0.05:
            inp = W.mutate_bin(inp, rng, fmt) if fmt < 2 else W.mutate_text(inp, rng, fmt)
        out.append((kind, inp, win))
    return out


def combined_frames(ctx, rng, n):
    """whole payloads (identifier, payload, clock input) for the entry points that take reassembled messages"""
    tr = H.Traffic(ctx, rng, "mixed")
    out = []
    for _ in range(n):
        src = rng.choice(tr.srcs)
        r = rng.random()
        if r < 0.30:
            pgn = rng.choice(tr.pgns_s)
            data = tr.P.payload(pgn)
        elif r < 0.65:
            pgn = rng.choice(tr.pgns_f)
            data = tr.P.payload(pgn)
            if rng.random() < 0.15:
                data = data[:rng.randint(1, len(data))]
        elif r < 0.80:
            pgn, data = CLAIM, rng.choice(tr.names).to_bytes(8, "little")
        elif r < 0.88:
            pgn, data = rng.choice(H.UNKNOWN + H.FAST_RAISES), bytes(rng.getrandbits(8) for _ in range(8))
        else:
            pgn = rng.choice(tr.pgns_s + tr.pgns_f)
            data = bytes(rng.getrandbits(8) for _ in range(rng.choice([1, 2, 8, 9, 30])))
        dst = tr.dst_for(pgn)
        ps = dst if H.is_pdu1(pgn) else (pgn & 0xFF)
        ident = (rng.getrandbits(3) << 26) | ((pgn >> 8) << 16) | (ps << 8) | src
        out.append((ident, data, rng.random() < 0.3))
    return out


def combined_history(ctx, rng, kind, n):
    """whole payloads, one line each: Actisense (3) or canboat plain with already_combined (5)"""
    fmt = 3 if kind == 3 else 4
    out = []
    for ident, data, win in combined_frames(ctx, rng, n):
        inp = W.render(fmt, ident, data, rng, C7.ref_extract, rng.random() < 0.15)
        if rng.random() < 0.06:
            inp = W.mutate_text(inp, rng, fmt)
        out.append((kind, inp, win))
    return out


def patch_pools(ctx):
    """product information (126996) is text: keep its candidate payloads inside the model's text layer"""
    P = H.pools(ctx)
    if getattr(P, "_e2e_patched", False):
        return P
    import nmea2000.pgns as pg
    rng = random.Random(f"e2e-pools:{ctx.seed}")
    v, b = [], []
    for _ in range(40):
        c = _ascii_payload(rng, TEXT_FAST, H.FAST_LEN[TEXT_FAST])
        try:
            pg.decode_pgn_126996(int.from_bytes(c, "little"))
            v.append(c)
        except Exception:  # noqa: BLE001
            b.append(c)
    if v:
        P.valid[TEXT_FAST], P.bad[TEXT_FAST] = v, b or P.bad[TEXT_FAST][:0]
    P._e2e_patched = True
    return P


def wide_history(ctx, rng, n):
    """messages of definitions drawn from the WHOLE database (payloads composed from canboat.json by tools/payloads.py:
    match fields set, values in range / all ones / zero / random), single frames and fast-packet sequences of two or
    three interleaved sources through decode_tcp; the filter, when there is one, names PGNs / ids of the history"""
    defs = PL.definitions()
    streams, used = [], []
    for src in rng.sample(H.SOURCES, rng.randint(2, 3)):
        fr = []
        for _ in range(max(1, n // 3)):
            d = rng.choice(defs)
            mode = rng.choice(["inrange"] * 5 + ["ones", "zero", "random"])
            p = PL.compose(d, rng, mode=mode)
            nb = max(int(d.get("Length") or 0), (p.bit_length() + 7) // 8, 1)
            fast = d.get("Type") == "Fast"
            nb = min(nb, 223 if fast else 8)
            payload = (p & ((1 << (8 * nb)) - 1)).to_bytes(nb, "little")
            pgn = d["PGN"]
            used.append((pgn, d["Id"]))
            dst = rng.choice([255, 255, 17, src]) if H.is_pdu1(pgn) else 255
            prio = rng.getrandbits(3)
            if fast:
                frames = H.fast_frames(payload, rng.getrandbits(3))
                fr += [H.mk_pkt(pgn, src, dst, prio, (f + bytes([0xFF] * 8))[:8], 8) for f in frames]
            else:
                fr.append(H.mk_pkt(pgn, src, dst, prio, payload, len(payload) if rng.random() < 0.5 else None))
        streams.append(fr)
    out = []
    while any(streams):
        st = rng.choice([x for x in streams if x])
        out.append((0, st.pop(0), False))
    cfg = {"ex": [], "inc": [], "exm": [], "incm": [], "nm": False}
    r = rng.random()
    if r < 0.4 and used:
        items = [rng.choice([pg, H.rand_case_str(rng, i)]) for pg, i in rng.sample(used, min(len(used), rng.randint(1, 3)))]
        cfg["ex" if rng.random() < 0.5 else "inc"] = items
    return cfg, out


def var_layout_history(ctx, rng, n, combined):
    """messages of the VARIABLE-LAYOUT definitions (STRING_LAU / STRING_LZ, fields without BitOffset, BINARY with
    BitLengthField, INDIRECT_LOOKUP) on the payload classes of tools/payloads.py:var_layout_payloads (both string
    encodings, byte-order marks, empty / short / overlong length bytes, truncated payloads, BitLengthField 0 / odd / not
    available, lookup pairs inside and outside the table).  combined=False: fast-packet sequences / single frames of two
    or three interleaved sources through decode_tcp; combined=True: one line per message through decode_actisense_string
    or decode_basic_string(line, True)"""
    grp = PL.groups()
    defs = []
    for d in PL.definitions():
        g = grp[d["PGN"]]
        multi = len(g) > 1 and any("Match" in f for x in g for f in x["Fields"])
        if PL.is_var_layout(d) and PL.supported(d) and (multi or d is g[-1]):
            defs.append(d)
    msgs = []
    for _ in range(n):
        d = rng.choice(defs)
        _label, p = rng.choice(PL.var_layout_payloads(d, rng, 4, 2))
        fast = d.get("Type") == "Fast"
        nb = min(max((p.bit_length() + 7) // 8, 1), 223 if fast or combined else 8)
        payload = (p & ((1 << (8 * nb)) - 1)).to_bytes(nb, "little")
        if rng.random() < 0.2 and nb < (223 if fast or combined else 8):
            payload += b"\x00" * rng.randint(1, 2)      # trailing zero bytes of the frame: not visible to the field decoders
        msgs.append((d, payload, fast))
    cfg = {"ex": [], "inc": [], "exm": [], "incm": [], "nm": False}
    out = []
    if combined:
        for d, payload, _fast in msgs:
            pgn, src = d["PGN"], rng.choice(H.SOURCES)
            dst = rng.choice([255, 17]) if H.is_pdu1(pgn) else 255
            ps = dst if H.is_pdu1(pgn) else (pgn & 0xFF)
            ident = (rng.getrandbits(3) << 26) | ((pgn >> 8) << 16) | (ps << 8) | src
            kind = rng.choice([3, 5])
            out.append((kind, W.render(3 if kind == 3 else 4, ident, payload, rng, C7.ref_extract, rng.random() < 0.15),
                        rng.random() < 0.3))
        return cfg, out
    streams = [[] for _ in range(rng.randint(2, 3))]
    srcs = rng.sample(H.SOURCES, len(streams))
    for d, payload, fast in msgs:
        k = rng.randrange(len(streams))
        pgn, src = d["PGN"], srcs[k]
        dst = rng.choice([255, 255, 17]) if H.is_pdu1(pgn) else 255
        prio = rng.getrandbits(3)
        if fast:
            streams[k] += [H.mk_pkt(pgn, src, dst, prio, (f + bytes([0xFF] * 8))[:8], 8)
                           for f in H.fast_frames(payload, rng.getrandbits(3))]
        else:
            streams[k].append(H.mk_pkt(pgn, src, dst, prio, payload, len(payload)))
    while any(streams):
        st = rng.choice([x for x in streams if x])
        out.append((0, st.pop(0), False))
    return cfg, out


def gen_cases(ctx, rng, n_tcp, n_other, n_wide=0, n_var=0):
    """[(cfg, hist, class)]"""
    patch_pools(ctx)
    raw = []
    for i in range(n_var):
        comb = i % 2 == 1
        cfg, hist = var_layout_history(ctx, rng, rng.randint(4, 9), comb)
        raw.append((cfg, hist[:70], "combined:variable-layout" if comb else "tcp:variable-layout"))
    for _ in range(n_wide):
        cfg, hist = wide_history(ctx, rng, rng.randint(9, 24))
        raw.append((cfg, hist[:60], "tcp:whole-database"))
    profiles = ["filter", "mixed", "claims", "malformed", "mixed"]
    for i in range(n_tcp):
        p = profiles[i % len(profiles)]
        cfg, hist = tcp_history(ctx, rng, p)
        if i % 4 == 0:
            cfg = {"ex": [], "inc": [], "exm": [], "incm": [], "nm": cfg["nm"]}
        raw.append((cfg, hist[:40], "tcp:" + p))
    for i in range(n_other):
        kind = [1, 2, 4, 3, 5][i % 5]
        if kind in (1, 2, 4):
            cfg, hist = tcp_history(ctx, rng, rng.choice(["mixed", "claims", "filter"]))
            hist = convert_history(rng, hist, kind)[:40]
        else:
            tr_cfg, _ = H.gen_case(ctx, rng, "mixed")
            cfg, hist = tr_cfg, combined_history(ctx, rng, kind, rng.randint(10, 30))
        raw.append((cfg, hist, FMT_NAME[kind]))
    return raw


# ------------------------------------------------------------------ the per-run theorem
def gen(ctx):
    """compile tools/templates/OblE2E.v (E2E_single_frame and companions) against the tables regenerated from /repo;
    appends one obligation per theorem to ctx.extra_obligations (call from the gen() of the check that hosts this module)"""
    g = G.ensure_gen()
    if not g["ok"]:
        return
    ok, out = G.compile_template("OblE2E", deps=("OblC01", "OblC08"))
    for nm in G.theorem_names("OblE2E"):
        ctx.extra_obligations.append({"name": f"OblE2E.v:{nm}", "ok": ok, "detail": out[-800:] if not ok else ""})
    import re
    m = re.search(r"=\s*\((\d+)%nat,\s*(\d+)%nat,\s*(\d+)%nat,\s*(\d+)%nat,\s*(\d+)%nat\)", " ".join(out.split()))
    m2 = re.search(r"\(88888,\s*(\d+)%nat\)", " ".join(out.split()))
    if m:
        ctx.notes.append(f"end-to-end theorems: E2E_any_entry covers {m.group(4)} of {m.group(3)} bound definitions (fixed layout, "
                         f"group in the scope of C08: {m.group(2)} of {m.group(1)} groups), {m.group(5)} of them of single-frame "
                         f"PGNs (reached frame by frame; the others through the already-combined entry points); with "
                         f"E2E_undispatched: {m2.group(1) if m2 else '?'} (every fixed-layout bound definition)")
    m3 = re.search(r"\(88889,\s*(\d+)%nat,\s*(\d+)%nat,\s*(\d+)%nat,\s*(\d+)%nat,\s*(\d+)%nat,\s*(\d+)%nat\)", " ".join(out.split()))
    if m3:
        ctx.notes.append(f"end-to-end theorems for the class var_def (spec_decode_var): E2E_any_entry_var covers {m3.group(1)} "
                         f"(group, bound definition) pairs, {m3.group(3)} of them of single-frame PGNs; with E2E_undispatched_var "
                         f"(and E2E_claim_var for 60928): {m3.group(2)}, of which {m3.group(4)} are not fixed-layout; bound "
                         f"definitions of PGN 60928 in var_def: {m3.group(5)}, fixed-layout: {m3.group(6)}")
    if not ok:
        ctx.hints.append({"kind": "tables", "diag": "OblE2E.v: " + " ".join(out.split())[-800:]})
    ok2, out2 = G.compile_template("OblE2Efast", deps=("OblC01", "OblC08", "OblE2E"))
    for nm in G.theorem_names("OblE2Efast"):
        ctx.extra_obligations.append({"name": f"OblE2Efast.v:{nm}", "ok": ok2, "detail": out2[-800:] if not ok2 else ""})
    mf = re.search(r"\(77777,\s*(\d+)%nat,\s*(\d+)%nat,\s*(\d+)%nat,\s*(\d+)%nat,\s*(\d+)%nat\)", " ".join(out2.split()))
    if mf:
        ctx.notes.append(f"fast-packet end-to-end theorems (frame by frame): E2E_fast_any_entry / E2E_fast_undispatched cover {mf.group(2)} of {mf.group(1)} fixed-layout bound definitions (fast-packet PGNs; {mf.group(3)} by E2E_fast_any_entry alone); {mf.group(4)} are single-frame (OblE2E), {mf.group(5)} without usable is_fast function")
    mv = re.search(r"\(77779,\s*(\d+)%nat,\s*(\d+)%nat,\s*(\d+)%nat,\s*(\d+)%nat,\s*(\d+)%nat,\s*(\d+)%nat\)", " ".join(out2.split()))
    if mv:
        ctx.notes.append(f"fast-packet end-to-end theorems for var_def (frame by frame): E2E_fast_any_entry_var / "
                         f"E2E_fast_undispatched_var cover {mv.group(2)} of {mv.group(1)} bound definitions (fast-packet PGNs; "
                         f"{mv.group(3)} by E2E_fast_any_entry_var alone; {mv.group(4)} of them not fixed-layout); {mv.group(5)} are "
                         f"single-frame (OblE2E), {mv.group(6)} without usable is_fast function")
    if not ok2:
        ctx.hints.append({"kind": "tables", "diag": "OblE2Efast.v: " + " ".join(out2.split())[-800:]})


# ------------------------------------------------------------------ correspondence
def correspond(ctx, prop=None, n_tcp=None, n_other=None, n_wide=None, n_var=None):
    prop = prop or ctx.prop
    g = G.ensure_gen()
    if not g["ok"]:
        return [{"name": "end to end: tables could not be regenerated", "n": 0, "failing": [], "errors":
                 [str(g.get("refused") or g.get("error"))], "distinct_nontrivial": 0}]
    ok, out = G.compile_template("CorrEndToEnd")
    if not ok:
        return [{"name": "end to end: CorrEndToEnd.v does not compile against the regenerated tables", "n": 0, "failing": [],
                 "errors": [out[-1500:]], "distinct_nontrivial": 0}]
    rng = random.Random(f"e2e:{prop}:{ctx.seed}:{ctx.tier}")
    raw = gen_cases(ctx, rng, n_tcp if n_tcp is not None else ctx.n(70, 500), n_other if n_other is not None else ctx.n(40, 250),
                    n_wide if n_wide is not None else ctx.n(40, 300), n_var if n_var is not None else ctx.n(16, 120))
    rng.shuffle(raw)
    H.INTERN = {}
    observed, keys = [], []
    dist = {"classes": {}, "calls": 0, "msgs": 0, "none": 0, "errs": {}, "ctor_err": 0, "fields_compared": 0,
            "msg_pgns": {}, "msg_ids": set(), "non_ascii_inputs": 0, "calls_per_format": {}, "final_identities": 0,
            "final_reassembly_records": 0}
    for cfg, hist, cls in raw:
        ob = run_real(cfg, hist)
        observed.append(ob)
        dist["final_identities"] += len(ob["map"])
        dist["final_reassembly_records"] += len(ob["reasm"])
        dist["classes"][cls] = dist["classes"].get(cls, 0) + 1
        dist["ctor_err"] += ob["ctor"] is not None
        kinds = [o[0] for o in ob["obs"]]
        dist["calls"] += len(kinds)
        dist["msgs"] += kinds.count("msg")
        dist["none"] += kinds.count("none")
        for (k, inp, _w), o in zip(hist, ob["obs"]):
            dist["calls_per_format"][FMT_NAME[k]] = dist["calls_per_format"].get(FMT_NAME[k], 0) + 1
            dist["non_ascii_inputs"] += _has_non_ascii(inp)
            if o[0] == "err":
                dist["errs"][o[1] + "/" + o[2]] = dist["errs"].get(o[1] + "/" + o[2], 0) + 1
            elif o[0] == "msg":
                dist["msg_pgns"][o[1]] = dist["msg_pgns"].get(o[1], 0) + 1
                dist["msg_ids"].add((o[1], o[2]))
                dist["fields_compared"] += o[7][_nfields_index(o[7])][1]
        if "msg" in kinds and ("none" in kinds or "err" in kinds):
            keys.append(repr((H.cfg_json(cfg), [(k, i.hex() if isinstance(i, bytes) else i) for k, i, _ in hist])))
    dist["distinct_definitions_returned"] = len(dist.pop("msg_ids"))
    dist["distinct_pgns_returned"] = len(dist["msg_pgns"])
    if len(dist["msg_pgns"]) > 40:
        dist["msg_pgns"] = dict(sorted(dist["msg_pgns"].items(), key=lambda kv: -kv[1])[:40])
    # one file per group of cases, each with the prelude of the long strings IT uses (a Coq numeral costs ~60 us per digit)
    size = max(4, min(12, len(raw) // 16 + 1))
    groups = []
    for g0 in range(0, len(raw), size):
        K = Interner()
        lits = [case_literal(raw[k][0], raw[k][1], observed[k], K) for k in range(g0, min(g0 + size, len(raw)))]
        groups.append((g0, lits, K))
    ids_prelude = H.intern_prelude()
    H.INTERN = None
    import time
    from concurrent.futures import ThreadPoolExecutor
    t0 = time.time()
    d = os.path.join(vlib.BUILD, "cases", prop)
    if os.path.isdir(d):
        for f in os.listdir(d):
            if f.startswith("cases_e2e"):
                os.unlink(os.path.join(d, f))

    def one(gi):
        g0, lits, K = groups[gi]
        return g0, run_cases(prop, f"e2e{gi}", IMPORTS, "ecase", "chk_e2e", lits, shard=len(lits) + 1,
                             prelude=ids_prelude + "\n" + K.prelude(), count="x_unmodelled")
    r = {"n": len(raw), "failing": [], "errors": [], "counted": 0}
    with ThreadPoolExecutor(max_workers=vlib.NCPU) as ex:
        for g0, rr in ex.map(one, range(len(groups))):
            r["failing"] += [g0 + i for i in rr["failing"]]
            r["errors"] += rr["errors"]
            r["counted"] += rr.get("counted", 0)
    r["failing"].sort()
    r["wall_s"] = round(time.time() - t0, 2)
    r.update(name="END TO END: real NMEA2000Decoder entry points (bytes/line -> message with all fields) vs e2e_step on the "
                  "regenerated tables, whole histories",
             distinct_nontrivial=distinct_count(keys), unmodelled=r.get("counted", 0),
             failing_cases=[case_json(raw[k][0], raw[k][1]) for k in r["failing"][:20]],
             samples=[{"config": H.cfg_json(raw[k][0]), "class": raw[k][2], "calls": len(raw[k][1]),
                       "first_outcomes": [o[0] for o in observed[k]["obs"][:8]]} for k in (0, len(raw) // 2, len(raw) - 1)],
             distribution=dist)
    return [r]


def _nfields_index(chunks):
    """index of the (32, number of fields) chunk: after pgn (3 chunks), id (2), description (2), ttl (1 or 4)"""
    i = 3 + 2 + 2
    i += 1 if chunks[i] == (8, 0) else 4
    return i


def case_json(cfg, hist):
    return {"config": H.cfg_json(cfg), "kind": "e2e",
            "history": [[k, i.hex() if isinstance(i, (bytes, bytearray)) else i, w] for k, i, w in hist]}


def hist_unjson(j):
    return [(k, bytes.fromhex(i) if k < 2 else i, bool(w)) for k, i, w in j]


# ------------------------------------------------------------------ the composition, tested directly on the real code
# An independent reference of the GLUE only: the header by the harness's own arithmetic, the reassembly of fast-packet
# messages by a set-based reference (first frame opens, frames of the same counter are collected until the announced
# length is reached), and the content by calling the generated decode function of pgns.py DIRECTLY on the little-endian
# integer of the payload.  An unfiltered real decoder must return, for every frame, exactly what the reference says.
class RefDecoder:
    def __init__(self):
        import nmea2000.pgns as P
        self.P = P
        self.streams = {}
        self.names = {}          # source -> NAME of its latest decodable address claim

    def _content(self, pgn, payload: bytes):
        f = getattr(self.P, f"decode_pgn_{pgn}", None)
        if f is None:
            return None
        try:
            m = f(int.from_bytes(payload, "little"))
        except Exception:  # noqa: BLE001
            return "raises"
        if m is None:
            return None
        return (m.PGN, m.id, repr([(x.id, x.value, x.raw_value) for x in m.fields]))

    def frame(self, ident, data: bytes, combined=False):
        """returns None / 'raises' / (pgn, id, src, dst, prio, NAME of the source, fields)"""
        pgn, src, dst, prio = C7.ref_extract(ident)
        isf = getattr(self.P, f"is_fast_pgn_{pgn}", None)
        if isf is None and not combined:
            return None
        fast = False
        if not combined:
            try:
                fast = isf()
            except Exception:  # noqa: BLE001
                return "raises"
        payload = data
        if not fast:
            c = self._content(pgn, data)
        else:
            if not data:
                return "raises"
            k = (pgn, src, dst)
            seq, fc = data[0] >> 5, data[0] & 31
            st = self.streams.get(k)
            if fc == 0 and (st is None or st["seq"] != seq):
                if len(data) < 2:
                    return "raises"
                st = self.streams[k] = {"seq": seq, "len": data[1], "frames": {0: data[2:]}}
            elif st is None or st["len"] == 0 or st["seq"] != seq or fc in st["frames"]:
                if st is None:
                    self.streams[k] = {"seq": -1, "len": 0, "frames": {}}
                return None
            else:
                st["frames"][fc] = data[1:]
            if sum(len(v) for v in st["frames"].values()) < st["len"]:
                return None
            payload = b"".join(st["frames"][i] for i in sorted(st["frames"]))[:st["len"]]
            c = self._content(pgn, payload)
            if c != "raises":
                del self.streams[k]
        if c is None or c == "raises":
            return c
        if c[0] == CLAIM:
            self.names[src] = int.from_bytes(payload, "little")
        return (c[0], c[1], src, dst, prio, self.names.get(src), c[2])


FRAME_KINDS = (0, 1, 2, 4)      # entry points that take one CAN frame per call


def _render_for(kind, ident, data):
    fmt = {0: 0, 1: 1, 2: 2, 3: 3, 4: 4, 5: 4}[kind]
    return W.render(fmt, ident, data, random.Random(repr((kind, ident, data))), C7.ref_extract, False)


def glue_oracle(kind, hist):
    """hist: [(ident, data)] through ONE entry point of an unfiltered decoder; returns None or (index, text)"""
    from nmea2000.decoder import NMEA2000Decoder
    dec, ref = NMEA2000Decoder(), RefDecoder()
    for i, (ident, data) in enumerate(hist):
        if kind in (2, 3) and not data:
            continue            # no line of these grammars carries an empty frame
        inp = _render_for(kind, ident, data)
        try:
            m = [dec.decode_tcp, dec.decode_usb, dec.decode_yacht_devices_string, dec.decode_actisense_string,
                 dec.decode_basic_string, lambda s: dec.decode_basic_string(s, True)][kind](inp)
            got = None if m is None else (m.PGN, m.id, m.source, m.destination, m.priority,
                                          None if m.source_iso_name is None else m.source_iso_name.name,
                                          repr([(x.id, x.value, x.raw_value) for x in m.fields]))
        except Exception:  # noqa: BLE001
            got = "raises"
        exp = ref.frame(ident, data, combined=kind in (3, 5))
        if got != exp:
            shown = inp.hex() if isinstance(inp, bytes) else repr(inp)
            return i, (f"call {i} of {FMT_NAME[kind]} (identifier {ident:#010x}, data {data.hex()}, input {shown[:120]}): the decoder "
                       f"gives {str(got)[:240]} where the generated decode function applied to the (reassembled) little-endian "
                       f"payload, with the header fields of the identifier and the source's latest claimed NAME, gives {str(exp)[:240]}")
    return None


def _glue_history(ctx, rng):
    patch_pools(ctx)
    kind = rng.choice([0, 0, 0, 1, 2, 4, 3, 5])
    if kind in (3, 5):
        return kind, [(i, d) for i, d, _w in combined_frames(ctx, rng, rng.randint(8, 25))]
    _cfg, hist = H.gen_case(ctx, rng, rng.choice(["mixed", "claims", "mixed", "malformed"]))
    out = []
    for pkt, _w in hist:
        n = min(pkt[0] & 15, 8)
        out.append((int.from_bytes(pkt[1:5], "big") & 0x1FFFFFFF, bytes(pkt[5:5 + n])))
    return kind, out


def glue_witness(kind, hist):
    r = glue_oracle(kind, hist)
    if r is None:
        return None
    hist = H.shrink(hist[:r[0] + 1], lambda t: glue_oracle(kind, t) is not None)
    r = glue_oracle(kind, hist)
    pgn = C7.ref_extract(hist[r[0]][0])[0]
    return {"key": f"e2e-glue:{FMT_NAME[kind]}:{'history' if len(hist) > 1 else 'single'}", "kind": "e2e-glue", "entry": kind,
            "what": r[1] + f" [PGN {pgn}]", "history": [[i, d.hex()] for i, d in hist]}


def search(ctx):
    rng = random.Random(f"e2e-search:{ctx.seed}")
    out, seen = [], set()
    cands = []
    for h in ctx.hints:
        for c in h.get("cases", []):
            if isinstance(c, dict) and c.get("kind") == "e2e":
                fr = _frames_of([(k, bytes.fromhex(i), w) for k, i, w in c["history"] if k == 0])
                cands.append((0, [(i & 0x1FFFFFFF, d[:8]) for i, d, _ in fr]))
    for _ in range(ctx.n(300, 3000)):
        cands.append(_glue_history(ctx, rng))
    for kind, hist in cands:
        if not hist:
            continue
        w = glue_witness(kind, hist)
        if w and w["key"] not in seen:
            seen.add(w["key"])
            out.append(w)
    return out


def replay(ctx, data):
    w = data.get("witness", data)
    if w.get("kind") != "e2e-glue":
        print("observed: not an end-to-end witness")
        return False
    r = glue_oracle(int(w.get("entry", 0)), [(int(i), bytes.fromhex(d)) for i, d in w["history"]])
    print("expected: every entry point returns, for every frame, the generated decode function's message for the (reassembled) "
          "little-endian payload with source / destination / priority of the identifier and the source's claimed NAME")
    print("observed:", r[1] if r else "property holds on this input")
    return r is not None
