"""C18 — preferred-unit conversion rewrites only value and unit label of matching quantities.

Tie: Message.v (apply_units / decoder_prefs / finish) vs the real NMEA2000Message.apply_preferred_units
called directly and through decoders constructed with preferred_units; the two oracle functions
(round(x, n), math.degrees) are instantiated by the results of the real calls, recorded by names injected
into nmea2000.utils from outside."""
from __future__ import annotations
import copy
from fractions import Fraction
import math
from vlib import cz, cbytes, clist, ctuple, run_cases, distinct_count
from props import c17 as H
from props.c17 import Unrepresentable, msg_lit, NumProxy, Md5Proxy, new_decoder, decode, db, payloads

PROPS_FILES = ["props/C18.v"]
ALWAYS_SEARCH = True
RULE = ("messages = real decoder output for every definition that has a field with a physical quantity (all 28 quantities; "
        "every definition with a TEMPERATURE/PRESSURE/ANGLE/SPEED field in every run) x payload classes (all-zero, all-ones "
        "= absent, random, one field at a boundary value) x preference maps over convertible and non-convertible "
        "quantities with each recognised unit in random letter case, unrecognised units and the empty map; (a) "
        "apply_preferred_units called directly with the map as given (exact comparison: upper case is NOT recognised at "
        "this level), (b) decoder constructed with the map vs apply_units(lower-cased map) of the message of a decoder "
        "without preferences (same payload, addressing, network map on), (c) hand-built fields with int / str / bytes / "
        "after-from_json quantities; non-trivial = at least one field is recognised; distinct by (message, map)")
TRUSTED = ["Message.v: apply_units / conv / decoder_prefs are a hand model of message.py 58-87, utils.py 9-85 and "
           "decoder.py 58, tied to the code by the correspondence cases of this run",
           "IEEE-754 binary64 arithmetic of CPython floats = Coq primitive floats (sub, mul, add, div evaluated by the kernel)"]
ASSUMPTIONS = ["round(x, n) and math.degrees are uninterpreted (Section variables): WHICH fields change and what is fed to "
               "them is proved/checked, their numerical accuracy is assumed and sampled by the witness search against "
               "exact rational arithmetic",
               "int operands above 2^53 and non-ASCII preference texts are outside the model (Unmodelled)"]

IMPORTS = "From NV Require Import Base Message CorrMessage.\nFrom Coq Require Import PrimFloat."
CONVERTIBLE = ("TEMPERATURE", "PRESSURE", "ANGLE", "SPEED")
UNITS = {"TEMPERATURE": ["c", "f"], "PRESSURE": ["bar", "psi"], "ANGLE": ["deg"], "SPEED": ["kts"]}
JUNK = ["", "k", "kelvin", "celsius", "pa", "rad", "m/s", "knots", "degrees", "cc", " c", "bar ", "PSI ", "x"]


def _pq():
    from nmea2000.consts import PhysicalQuantities
    return PhysicalQuantities


def _randcase(rng, s):
    return "".join(ch.upper() if rng.random() < 0.5 else ch.lower() for ch in s)


def random_prefs(rng, exact=False):
    """dict PhysicalQuantities -> str. exact=True: for the direct call (lower case recognised only)."""
    PQ = _pq()
    out = {}
    r = rng.random()
    if r < 0.08:
        return out
    for q in CONVERTIBLE:
        x = rng.random()
        if x < 0.65:
            u = rng.choice(UNITS[q])
            if exact:
                u = u if rng.random() < 0.8 else _randcase(rng, u)
            else:
                u = _randcase(rng, u)
            out[getattr(PQ, q)] = u
        elif x < 0.8:
            out[getattr(PQ, q)] = rng.choice(JUNK + [rng.choice(UNITS[rng.choice(CONVERTIBLE)])])
    if rng.random() < 0.3:
        out[rng.choice(list(PQ))] = rng.choice(JUNK + ["c", "deg", "bar", "kts"])
    items = list(out.items())
    rng.shuffle(items)
    return dict(items)


def prefs_lit(p):
    return clist(ctuple(cz(k.value[0]), cbytes(v.encode())) for k, v in p.items())


def _has_q(d, names=None):
    return any(f.get("PhysicalQuantity") in (names or [f.get("PhysicalQuantity")]) and f.get("PhysicalQuantity")
               for f in d["Fields"])


def _recognised(m, lowered):
    PQ = _pq()
    n = 0
    for f in m.fields:
        q = f.physical_quantities
        if isinstance(q, PQ) and q.name in UNITS and lowered.get(q) in UNITS[q.name]:
            n += 1
    return n


def _synthetic(rng):
    from nmea2000.message import NMEA2000Message, NMEA2000Field
    from nmea2000.consts import FieldTypes
    PQ = _pq()
    vals = [None, 0, 1, -5, 273, 100000, 6894, (1 << 53), -(1 << 53), 0.0, -0.0, 273.15, 1e-310, 1e300, -40.0, 3.14159,
            float("inf"), float("-inf"), float("nan"), "abc", b"\x01", 655.32, 0.005, 2.675, 1e16]
    out = []
    for _ in range(80):
        fs = []
        for j in range(rng.randint(1, 5)):
            v = rng.choice(vals)
            q = rng.choice([PQ.TEMPERATURE, PQ.PRESSURE, PQ.ANGLE, PQ.SPEED, PQ.LENGTH, None, [23], [12]])
            fs.append(NMEA2000Field(f"f{j}", "n", None, rng.choice(["K", "Pa", None]), v, rng.choice([v, 7]), q,
                                    FieldTypes.NUMBER, False))
        out.append(NMEA2000Message(PGN=130312, id="temperature", description="d", fields=fs))
    return out


def correspond(ctx):
    rng = ctx.rng
    PQ = _pq()
    reports = []
    plain = new_decoder(build_network_map=True)
    decode(plain, *H.CLAIM, src=1)
    cases, raw = [], []
    unrep = 0
    with NumProxy() as npx, Md5Proxy():
        # (a) direct calls on decoded messages
        for d in db():
            conv = _has_q(d, CONVERTIBLE)
            if not _has_q(d) or (not conv and rng.random() < (0.5 if ctx.thorough else 0.85)):
                continue
            for (p, n) in payloads(d, rng, ctx.n(2, 8), ctx.n(2, 10)):
                m = decode(plain, d["PGN"], p, n, src=rng.choice([1, 2]))
                if m is None or isinstance(m, Exception):
                    continue
                for _ in range(1 if not conv else ctx.n(1, 3)):
                    prefs = random_prefs(rng, exact=True)
                    before = copy.deepcopy(m)
                    try:
                        lit_b = msg_lit(before)
                        try:
                            before.apply_preferred_units(prefs)
                            obs = f"(Some {msg_lit(before)})"
                        except Unrepresentable:
                            raise
                        except Exception:  # noqa: BLE001
                            obs = "None"
                        cases.append(ctuple(ctuple(prefs_lit(prefs), lit_b), "TBL", obs))
                        raw.append({"kind": "direct", "pgn": d["PGN"], "payload": p.to_bytes(n, "little").hex(),
                                    "prefs": {k.name: v for k, v in prefs.items()}, "recognised": _recognised(m, prefs)})
                    except Unrepresentable:
                        unrep += 1
        # (b) through decoders constructed with preferences
        pc, praw = [], []
        for _ in range(ctx.n(12, 60)):
            prefs = random_prefs(rng)
            dec = new_decoder(build_network_map=True, preferred_units=prefs)
            decode(dec, *H.CLAIM, src=1)
            pc.append(ctuple(prefs_lit(prefs), prefs_lit(dec.preferred_units)))
            praw.append({k.name: v for k, v in prefs.items()})
            defs = [d for d in db() if _has_q(d, CONVERTIBLE)]
            for d in rng.sample(defs, ctx.n(8, 30)):
                for (p, n) in payloads(d, rng, 1, 1):
                    kw = {"src": rng.choice([1, 2]), "prio": rng.getrandbits(3)}
                    m0 = decode(plain, d["PGN"], p, n, **kw)
                    m1 = decode(dec, d["PGN"], p, n, **kw)
                    if m0 is None or isinstance(m0, Exception) or m1 is None or isinstance(m1, Exception):
                        continue
                    try:
                        cases.append(ctuple(ctuple(prefs_lit(dec.preferred_units), msg_lit(m0)), "TBL", f"(Some {msg_lit(m1)})"))
                        raw.append({"kind": "decoder", "pgn": d["PGN"], "payload": p.to_bytes(n, "little").hex(),
                                    "prefs": {k.name: v for k, v in prefs.items()},
                                    "recognised": _recognised(m0, dec.preferred_units)})
                    except Unrepresentable:
                        unrep += 1
        # (c) hand-built fields
        for m in _synthetic(rng):
            prefs = random_prefs(rng, exact=True)
            if any(isinstance(f.value, int) and not isinstance(f.value, bool) and abs(f.value) > (1 << 53) for f in m.fields):
                continue
            try:
                lit_b = msg_lit(m)
                try:
                    m.apply_preferred_units(prefs)
                    obs = f"(Some {msg_lit(m)})"
                except Unrepresentable:
                    raise
                except Exception:  # noqa: BLE001
                    obs = "None"
                cases.append(ctuple(ctuple(prefs_lit(prefs), lit_b), "TBL", obs))
                raw.append({"kind": "synthetic", "prefs": {k.name: v for k, v in prefs.items()}, "msg": lit_b[:400],
                            "recognised": 1 if obs != "None" else 2})
            except Unrepresentable:
                unrep += 1
        tbl = npx.tables()
        nround, ndeg = len(npx.rounds), len(npx.degs)
    r = run_cases("C18", "units", IMPORTS, "(prefs * msg) * (round_tbl * deg_tbl) * option msg", "chk_units", cases,
                  shard=150, prelude=f"Definition TBL : round_tbl * deg_tbl := {tbl}.\n")
    r.update(name="apply_preferred_units (direct, through decoders with preferences, hand-built) vs apply_units of Message.v",
             distinct_nontrivial=distinct_count([c for c, x in zip(cases, raw) if x["recognised"]]),
             failing_cases=[raw[k] for k in r["failing"][:20]],
             samples=[raw[k] for k in (0, len(raw) // 2, len(raw) - 1)] if raw else [],
             distribution={"direct": sum(1 for x in raw if x["kind"] == "direct"),
                           "through_decoder": sum(1 for x in raw if x["kind"] == "decoder"),
                           "synthetic": sum(1 for x in raw if x["kind"] == "synthetic"),
                           "raised": sum(1 for c in cases if c.endswith(", None)")),
                           "with_recognised_field": sum(1 for x in raw if x["recognised"]),
                           "recorded_round_calls": nround, "recorded_degrees_calls": ndeg,
                           "unrepresentable_skipped": unrep})
    reports.append(r)
    r = run_cases("C18", "prefs", IMPORTS, "prefs * prefs", "chk_prefs", pc)
    r.update(name="decoder.preferred_units vs decoder_prefs (lower-casing)", distinct_nontrivial=distinct_count(pc),
             failing_cases=[praw[k] for k in r["failing"][:20]], samples=praw[:2])
    reports.append(r)
    return reports


# ------------------------------------------------------------------ property oracle on the real code
def _exact(q, u, v):
    """exact conversion and the tolerance the library's rounding allows"""
    x = Fraction(v)
    if (q, u) == ("TEMPERATURE", "c"):
        return x - Fraction("273.15"), Fraction("0.005")
    if (q, u) == ("TEMPERATURE", "f"):
        return (x - Fraction("273.15")) * Fraction(9, 5) + 32, Fraction("0.5")
    if (q, u) == ("PRESSURE", "bar"):
        return x / 100000, Fraction(0)
    if (q, u) == ("PRESSURE", "psi"):
        return x / Fraction("6894.76"), Fraction(0)
    if (q, u) == ("ANGLE", "deg"):
        return x * 180 / Fraction(math.pi), Fraction("0.5")
    if (q, u) == ("SPEED", "kts"):
        return x * Fraction(3600, 1852), Fraction("0.05")
    raise KeyError


LABEL = {("TEMPERATURE", "c"): "C", ("TEMPERATURE", "f"): "F", ("PRESSURE", "bar"): "Bar", ("PRESSURE", "psi"): "PSI",
         ("ANGLE", "deg"): "Deg", ("SPEED", "kts"): "kts"}


def _same(x, y):
    if type(x) is not type(y):
        return False
    if isinstance(x, float):
        return x == y and math.copysign(1, x) == math.copysign(1, y) or (x != x and y != y)
    return x == y


def _check_units(w):
    PQ = _pq()
    prefs = {getattr(PQ, k): v for k, v in w["prefs"].items()}
    by = bytes.fromhex(w["payload"])
    p, n = int.from_bytes(by, "little"), len(by)
    a = new_decoder(build_network_map=True)
    b = new_decoder(build_network_map=True, preferred_units=prefs)
    m0, m1 = decode(a, w["pgn"], p, n), decode(b, w["pgn"], p, n)

    def snap(m):     # taken at once: a later decode must not be able to reach back into what was returned
        return None if m is None or isinstance(m, Exception) else [(f.id, f.value, f.unit_of_measurement, f.raw_value) for f in m.fields]
    snaps = {"with preferences": snap(m1), "without preferences": snap(m0)}
    if m0 is None or isinstance(m0, Exception):
        if not (m1 is None or isinstance(m1, Exception)):
            return {**w, "key": "units:decodes-only-with-preferences", "what": f"PGN {w['pgn']} decodes only with preferences"}
        return None
    base = {**w, "kind": "units"}
    if m1 is None or isinstance(m1, Exception):
        return {**base, "key": "units:lost-with-preferences",
                "what": f"PGN {w['pgn']} payload {w['payload']}: decodes without preferences but not with {w['prefs']}: {m1!r}"}
    hdr = ("PGN", "id", "description", "ttl", "source", "destination", "priority", "timestamp", "hash", "raw_can_data")
    for k in hdr:
        if getattr(m0, k) != getattr(m1, k):
            return {**base, "key": f"units:header-changed:{k}", "what": f"PGN {w['pgn']}: {k} differs with preferences {w['prefs']}"}
    if len(m0.fields) != len(m1.fields):
        return {**base, "key": "units:field-count", "what": f"PGN {w['pgn']}: number of fields differs with preferences"}
    for f0, f1 in zip(m0.fields, m1.fields):
        q = f0.physical_quantities.name if f0.physical_quantities is not None else None
        u = prefs.get(f0.physical_quantities, None) if f0.physical_quantities is not None else None
        u = u.lower() if isinstance(u, str) else None
        rec = q in UNITS and u in UNITS[q]
        for k in ("id", "name", "description", "raw_value", "physical_quantities", "type", "part_of_primary_key"):
            x, y = getattr(f0, k), getattr(f1, k)
            if not _same(x, y):
                return {**base, "key": f"units:attribute-changed:{k}",
                        "what": f"PGN {w['pgn']} field {f0.id}: {k} {x!r} -> {y!r} with preferences {w['prefs']}"}
        if not rec:
            if not _same(f0.value, f1.value) or f0.unit_of_measurement != f1.unit_of_measurement:
                return {**base, "key": "units:unmatched-field-changed",
                        "what": f"PGN {w['pgn']} field {f0.id} ({q}, preference {u!r}): value/unit {f0.value!r} {f0.unit_of_measurement!r} "
                                f"-> {f1.value!r} {f1.unit_of_measurement!r}"}
            continue
        if f1.unit_of_measurement != LABEL[(q, u)]:
            return {**base, "key": "units:label", "what": f"PGN {w['pgn']} field {f0.id}: label {f1.unit_of_measurement!r}, "
                                                          f"expected {LABEL[(q, u)]!r}"}
        if f0.value is None:
            if f1.value is not None:
                return {**base, "key": "units:absent-not-absent", "what": f"PGN {w['pgn']} field {f0.id}: absent became {f1.value!r}"}
            continue
        if not isinstance(f1.value, float):
            return {**base, "key": "units:converted-type", "what": f"PGN {w['pgn']} field {f0.id}: converted value {f1.value!r}"}
        ex, tol = _exact(q, u, f0.value)
        err = abs(Fraction(f1.value) - ex)
        if err > tol + abs(ex) * Fraction(1, 1 << 50) + Fraction(1, 10**12):
            return {**base, "key": f"units:value:{q}:{u}",
                    "what": f"PGN {w['pgn']} field {f0.id}: {f0.value!r} {f0.unit_of_measurement} -> {f1.value!r} {u}, exact "
                            f"{float(ex)!r} (payload {w['payload']}, preferences {w['prefs']})"}
    # multi-frame messages: delivered frame by frame (EByte packets) the reassembled message carries the same converted
    # values as the pre-assembled line gave
    if any(x["PGN"] == w["pgn"] and x.get("Type") == "Fast" for x in db()):
        from props import c10 as H10
        dst = 255
        frames = H10.fast_frames(by, 3)
        for who, kw in (("with preferences", {"preferred_units": prefs}), ("without preferences", {})):
            d2 = new_decoder(build_network_map=True, **kw)
            last = None
            try:
                for f in frames:
                    last = d2.decode_tcp(H10.mk_pkt(w["pgn"], 1, dst, 2, (f + bytes([0xFF] * 8))[:8], 8))
            except Exception as e:  # noqa: BLE001
                last = e
            got = snap(last)
            if got is None or len(got) != len(snaps[who]):
                return {**base, "key": "units:frame-by-frame-differs",
                        "what": f"PGN {w['pgn']} payload {w['payload']} preferences {w['prefs']}: delivered as {len(frames)} frames the "
                                f"decoder {who} returns {last!r}"}
            for x, y in zip(snaps[who], got):
                if not _same(x[1], y[1]) or x[2] != y[2] or not _same(x[3], y[3]):
                    return {**base, "key": "units:frame-by-frame-differs",
                            "what": f"PGN {w['pgn']} payload {w['payload']} preferences {w['prefs']}, decoder {who}: field {x[0]} is "
                                    f"{x[1]!r} {x[2]!r} from the pre-assembled line, {y[1]!r} {y[2]!r} when the message arrives as "
                                    f"{len(frames)} frames"}
    # the same payload again (devices repeat an unchanged reading many times a second): each decoder returns what it
    # returned the first time — a conversion is applied to the message being returned, once
    for rep in (2, 3):
        for who, dec_, first in (("with preferences", b, m1), ("without preferences", a, m0)):
            again = snap(decode(dec_, w["pgn"], p, n))
            now_first = snap(first)
            for label, got in (("decode #%d of the same payload" % rep, again), ("the message returned by decode #1, looked at again", now_first)):
                if got is None or len(got) != len(snaps[who]):
                    return {**base, "key": "units:repeated-decode-differs",
                            "what": f"PGN {w['pgn']} payload {w['payload']}: {label} on the decoder {who} gives {got!r}"}
                for x, y in zip(snaps[who], got):
                    if not _same(x[1], y[1]) or x[2] != y[2] or not _same(x[3], y[3]):
                        return {**base, "key": "units:repeated-decode-differs",
                                "what": f"PGN {w['pgn']} payload {w['payload']} preferences {w['prefs']}, decoder {who}: {label}: field "
                                        f"{x[0]} was {x[1]!r} {x[2]!r} the first time, is {y[1]!r} {y[2]!r}"}
    return None


def _tie_inputs(q, u, res, nmax, rng, count):
    """raw values whose exact converted value lies next to a rounding tie of the library's rounding step
    (where a conversion that rounds twice, or rounds an intermediate, goes wrong)"""
    inv = {("TEMPERATURE", "c"): lambda y: y + Fraction("273.15"),
           ("TEMPERATURE", "f"): lambda y: (y - 32) * Fraction(5, 9) + Fraction("273.15"),
           ("ANGLE", "deg"): lambda y: y * Fraction(math.pi) / 180,
           ("SPEED", "kts"): lambda y: y * Fraction(1852, 3600)}.get((q, u))
    if inv is None:
        return []
    _, tol = _exact(q, u, 1.0)
    step = 2 * tol
    lo, hi = _exact(q, u, 0.0)[0], _exact(q, u, float(Fraction(res) * nmax))[0]
    m_lo, m_hi = int(lo / step), int(hi / step)
    out = []
    for _ in range(count):
        m = rng.randint(min(m_lo, m_hi), max(m_lo, m_hi))
        x = inv((m + Fraction(1, 2)) * step)
        n0 = int(x / Fraction(res))
        out += [n for n in range(n0 - 3, n0 + 5) if 0 <= n <= nmax]
    return out


def _tie_search(ctx, rng, emit):
    done = {}
    for d in db():
        for f in d["Fields"]:
            q = f.get("PhysicalQuantity")
            if q not in UNITS or f.get("FieldType") != "NUMBER" or "BitOffset" not in f or f.get("Signed"):
                continue
            res, ln = f.get("Resolution", 1), f["BitLength"]
            if done.get((q, res), 0) >= ctx.n(1, 3) or ln > 32:
                continue
            base = None
            for (p, n) in payloads(d, rng, 1, 1):
                base = (p, n)
                break
            if base is None:
                continue
            done[(q, res)] = done.get((q, res), 0) + 1
            nmax = min((1 << ln) - 3, int(Fraction(str(f.get("RangeMax", 0))) / Fraction(str(res))) if f.get("RangeMax") else (1 << ln) - 3)
            for u in UNITS[q]:
                for nraw in _tie_inputs(q, u, Fraction(str(res)), nmax, rng, ctx.n(25, 250)):
                    mask = ((1 << ln) - 1) << f["BitOffset"]
                    p = (base[0] & ~mask) | (nraw << f["BitOffset"])
                    PQn = {"TEMPERATURE": "TEMPERATURE", "PRESSURE": "PRESSURE", "ANGLE": "ANGLE", "SPEED": "SPEED"}[q]
                    emit(_check_units({"kind": "units", "pgn": d["PGN"], "payload": p.to_bytes(base[1], "little").hex(),
                                       "prefs": {PQn: u.upper() if rng.random() < 0.5 else u}}))


def search(ctx):
    rng = ctx.rng
    out, seen = [], set()

    def emit(r):
        if r and r["key"] not in seen:
            seen.add(r["key"])
            out.append(r)
    _tie_search(ctx, rng, emit)
    focus = {c.get("pgn") for h in ctx.hints for c in h.get("cases", []) if isinstance(c, dict)}
    for d in db():
        if not _has_q(d):
            continue
        conv = _has_q(d, CONVERTIBLE)
        if not conv and d["PGN"] not in focus and rng.random() < 0.7:
            continue
        for (p, n) in payloads(d, rng, ctx.n(2, 10), ctx.n(2, 10)):
            for _ in range(ctx.n(1, 3)):
                prefs = random_prefs(rng)
                w = {"kind": "units", "pgn": d["PGN"], "payload": p.to_bytes(n, "little").hex(),
                     "prefs": {k.name: v for k, v in prefs.items()}}
                r = _check_units(w)
                if r and r["key"] not in seen:
                    seen.add(r["key"])
                    out.append(r)
    return out


def replay(ctx, data):
    w = data.get("witness", data)
    if w.get("kind") != "units":
        return True
    r = _check_units({k: w[k] for k in ("kind", "pgn", "payload", "prefs")})
    print("observed:", r["what"] if r else "property holds on this input")
    return r is not None
