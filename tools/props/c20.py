"""C20 — the serial (USB) stream resynchronises after noise with bounded buffering.

Tie: correspondence of Serial.v (`serial_step`, `usb_valid`, `checksum`) with the real
`WaveShareNmea2000Gateway._receive_impl` (driven without a serial port: a stub reader with scripted reads),
`NMEA2000Decoder.decode_usb` and `utils.calculate_canbus_checksum`.  The model is the loop WITH the repair
fixes/F-serialbuf.patch; against a tree without it the pending-byte counts disagree and the search reports the
unbounded buffer with a concrete noise stream.
"""
from __future__ import annotations
import asyncio
import collections
import itertools
import types

from vlib import cz, clist, cbytes, cbool, ctuple, run_cases, distinct_count

PROPS_FILES = ["props/C20.v"]
ALWAYS_SEARCH = True      # the oracle on the real client is cheap (a few seconds in the quick tier)
BOUND = 60                # the search's reading of "a small constant (a few packets' worth)": three packets
RULE = ("a case is one SESSION of the real client: a byte stream built from segments (valid packets produced by "
        "encode_usb from real messages incl. ones with the marker inside the body / ending in 0xAA, valid-checksum "
        "packets with random bodies, packets with a corrupted checksum/body byte, packets with a damaged header, "
        "truncated packets, noise runs: empty, marker-free, ending in 0xAA, starting with 0x55, all-0xAA, zeros, "
        "with markers inside, ending in a whole marker, long) cut into reads (all 2^(L-1) segmentations of short "
        "streams, all 1- and 2-cut segmentations of a two-packet stream, one byte at a time, cuts next to every "
        "marker and packet end, random sizes 1..100, maximal reads of 100); observed per read: the byte strings handed "
        "to decode_usb, whether each reached _decode, the pending bytes (sum of the lengths of the bytes-like objects "
        "reachable from the client's attributes). Non-trivial: at least one packet was cut out or at least one byte "
        "was retained between reads; distinct by (reads). Separate literal cases for decode_usb's acceptance test "
        "(every length 0..40, wrong prefix, wrong checksum) and calculate_canbus_checksum. The search's bound on "
        "pending bytes is %d (the theorem's is 19)." % BOUND)
TRUSTED = ["Serial.v is a hand model of the buffer loop of WaveShareNmea2000Gateway._receive_impl (with "
           "fixes/F-serialbuf.patch), of decode_usb's acceptance test and of calculate_canbus_checksum; tied to the "
           "code only by the correspondence sessions of this run",
           "what happens after decode_usb's acceptance test (_decode, queue, callback) is not modelled here (C12/C01); "
           "the search checks on the real client that every accepted known-decodable packet reaches the receive callback",
           "the harness replaces client.reader by a stub whose read(n) returns the scripted bytes (at most n) without "
           "suspending; the real reader's own buffering is outside the property (C12 models StreamReader)"]
ASSUMPTIONS = ["bytearray.find / endswith / slicing / del-slice behave as find_marker / ends_aa / firstn / skipn",
               "reads are non-empty (an empty read is the end-of-stream case, property C13)"]

IMPORTS = "From NV Require Import Base Serial CorrSerial."
MARK = b"\xaa\x55"


# ------------------------------------------------------------------ driving the real client
class _Reader:
    """stub for client.reader: read(n) returns the scripted bytes, at most n of them, never suspends"""

    def __init__(self):
        self.data = b""
        self.last = b""      # what the reads of the current _receive_impl call returned

    def push(self, b: bytes):
        self.data += b

    async def read(self, n=-1):
        if n is None or n < 0:
            n = len(self.data)
        out, self.data = self.data[:n], self.data[n:]
        self.last += out
        return out


_SKIP_MODULES = ("asyncio", "logging", "nmea2000.decoder", "nmea2000.encoder", "concurrent", "threading")


def _pending(client, skip) -> int:
    """sum of the lengths of the bytes-like objects reachable from the client's attributes (the decoder, the
    encoder, asyncio and logging objects and the harness's own stub are not entered)"""
    seen = {id(x) for x in skip}
    total = 0
    todo = list(vars(client).values())
    while todo:
        o = todo.pop()
        if id(o) in seen:
            continue
        seen.add(id(o))
        if isinstance(o, (bytes, bytearray, memoryview)):
            total += len(o)
        elif isinstance(o, (str, int, float, bool, type(None), types.FunctionType, types.MethodType,
                            types.ModuleType, type, types.BuiltinFunctionType)):
            continue
        elif isinstance(o, dict):
            todo.extend(o.keys())
            todo.extend(o.values())
        elif isinstance(o, (list, tuple, set, frozenset, collections.deque)):
            todo.extend(o)
        else:
            mod = getattr(type(o), "__module__", "") or ""
            if mod.startswith(_SKIP_MODULES):
                continue
            d = getattr(o, "__dict__", None)
            if isinstance(d, dict):
                todo.extend(d.values())
            for s in getattr(type(o), "__slots__", ()) or ():
                if hasattr(o, s):
                    todo.append(getattr(o, s))
    return total


class _Writer:
    def write(self, data):
        pass

    async def drain(self):
        return

    def close(self):
        pass

    def is_closing(self):
        return False

    async def wait_closed(self):
        return


_CLOCK = [None]      # a controllable clock for time.monotonic / time.time while sessions run (None = the real one)


class _FakeTime:
    """while active, time.monotonic() and time.time() return a clock the harness advances (silence on the line)"""
    def __enter__(self):
        import time as _t
        self.t, self.saved = _t, (_t.monotonic, _t.time)
        base_m, base_t = _t.monotonic(), _t.time()
        _CLOCK[0] = 0.0
        _t.monotonic = lambda: base_m + _CLOCK[0]
        _t.time = lambda: base_t + _CLOCK[0]
        return self

    def __exit__(self, *a):
        self.t.monotonic, self.t.time = self.saved
        _CLOCK[0] = None


class _Port:
    """one real WaveShare client on a scripted serial port, opened through the client's own _connect_impl (so whatever
    the client sets up for a new connection is set up by the client, not by the harness)"""

    async def open(self):
        import serial_asyncio
        from nmea2000.ioclient import WaveShareNmea2000Gateway
        self.c = c = WaveShareNmea2000Gateway("/dev/null")
        self.rd = rd = _Reader()

        async def fake_open(*a, **k):
            return rd, _Writer()

        saved = serial_asyncio.open_serial_connection
        serial_asyncio.open_serial_connection = fake_open
        try:
            await c._connect_impl()
        finally:
            serial_asyncio.open_serial_connection = saved
        dec = c.decoder
        orig_usb, orig_dec = dec.decode_usb, dec._decode
        self.st = st = {"reached": False, "cur": []}

        def w_decode(*a, **k):
            st["reached"] = True
            return orig_dec(*a, **k)

        def w_usb(packet):
            st["reached"] = False
            rec = [bytes(packet), False, False, False]
            st["cur"].append(rec)
            try:
                m = orig_usb(packet)
            except BaseException:
                rec[1], rec[3] = st["reached"], True
                raise
            rec[1], rec[2] = st["reached"], m is not None
            return m

        dec._decode, dec.decode_usb = w_decode, w_usb
        self.got = got = []

        async def cb(m):
            got.append(m)

        c.set_receive_callback(cb)
        self.steps = []
        self.conn_starts = [0]
        self.dead = False
        return self

    async def reopen(self):
        """the link is opened again (what connect() does after a fault): through the client's own _connect_impl"""
        import serial_asyncio
        self.rd = rd = _Reader()

        async def fake_open(*a, **k):
            return rd, _Writer()

        saved = serial_asyncio.open_serial_connection
        serial_asyncio.open_serial_connection = fake_open
        try:
            await self.c._connect_impl()
        finally:
            serial_asyncio.open_serial_connection = saved
        self.conn_starts.append(len(self.steps))

    async def feed(self, ch):
        """one scripted read: one _receive_impl call (more if the code reads less than the chunk)"""
        if self.dead:
            return
        c, rd, st, got = self.c, self.rd, self.st, self.got
        rd.push(bytes(ch))
        guard = 0
        while rd.data and guard < 200:
            guard += 1
            st["cur"] = []
            rd.last = b""
            n0 = len(got)
            exc = None
            try:
                await c._receive_impl()
            except Exception as e:  # noqa: BLE001
                exc = repr(e)
            try:
                await asyncio.wait_for(c.queue.join(), 5)
            except Exception as e:  # noqa: BLE001
                exc = exc or ("consumer: " + repr(e))
            if not rd.last and exc is None:
                exc = "no bytes were read"
            self.steps.append({"read": rd.last, "pk": st["cur"], "pending": _pending(c, (rd,)), "cb": got[n0:], "exc": exc})
            if exc:
                self.dead = True
                return

    async def shut(self):
        t = self.c._process_queue_task
        t.cancel()
        try:
            await t
        except BaseException:  # noqa: BLE001
            pass


async def _run_one(chunks):
    """one client, one _receive_impl call per chunk (more if the code reads less than the chunk). Per call:
    {'read': the bytes the call got, 'pk': [[bytes handed to decode_usb, reached _decode, message returned, raised]],
    'pending': int, 'cb': [messages the receive callback got], 'exc': repr or None}"""
    p = await _Port().open()
    try:
        for ch in chunks:
            await p.feed(ch)
    finally:
        await p.shut()
    return p.steps


def _silence_oracle(ctx, rng, only=None):
    """silence on the line (seconds without a byte, also in the middle of a packet) is not noise: a stream of valid packets
    read with pauses between the reads loses nothing. time.monotonic / time.time are driven by the harness."""
    async def run(reads, pauses):
        p = await _Port().open()
        try:
            for ch, pz in zip(reads, pauses):
                if pz:
                    _CLOCK[0] += pz
                await p.feed(ch)
        finally:
            await p.shut()
        return p.steps

    def judge(segs, reads, pauses):
        with _FakeTime():
            steps = asyncio.run(run(reads, pauses))
        return _oracle(segs, reads, steps)
    if only is not None:
        segs = [(t, bytes.fromhex(b)) for t, b in only["segs"]]
        reads = [bytes.fromhex(x) for x in only["reads"]]
        return judge(segs, reads, only["pauses"])
    for _ in range(ctx.n(12, 150)):
        segs = [("P", rng.choice(_pool())[0]) for _ in range(rng.randint(2, 6))]
        stream = _stream(segs)
        reads = rng.choice(_segmentations(rng, stream, 3))
        pauses = [rng.choice([0, 0, 0, 1.5, 2.0, 5.0, 0.4, 61.0]) for _ in reads]
        w = judge(segs, reads, pauses)
        if w:
            w = dict(w)
            w["key"] = "silence:" + w["key"]
            w["what"] = ("valid packets only, pauses of " + str(sorted({x for x in pauses if x})) + " s between some reads: " + w["what"])
            w.update(kind="silence", segs=[[t, b.hex()] for t, b in segs], reads=[c.hex() for c in reads], pauses=pauses)
            return w
    return None


async def _run_ports(scripts, order, reopen_at=None):
    """several ports alive at once: scripts[k] = reads of port k, order = which port reads next. reopen_at = a position
    in `order` at which one more client is created and connected (its construction must not disturb the others)."""
    ports = [await _Port().open() for _ in scripts]
    extra = []
    pos = [0] * len(scripts)
    try:
        for n, k in enumerate(order):
            if reopen_at is not None and n == reopen_at:
                extra.append(await _Port().open())
            if pos[k] < len(scripts[k]):
                await ports[k].feed(scripts[k][pos[k]])
                pos[k] += 1
    finally:
        for p in ports + extra:
            await p.shut()
    return [p.steps for p in ports]


def _ports_oracle(ctx, rng, only=None):
    """C20 holds for every port when several serial gateways are used by one process: each port's stream is judged by
    the single-port oracle on what that port's client did."""
    def judge(sess, order, reopen_at):
        runs = asyncio.run(_run_ports([reads for _, reads in sess], order, reopen_at))
        for k, ((segs, reads), steps) in enumerate(zip(sess, runs)):
            done = sum(len(x["read"]) for x in steps)
            if any(x["exc"] for x in steps) or done == sum(map(len, reads)):
                w = _oracle(segs, reads, steps)
                if w:
                    return k, w
        return None
    if only is not None:
        sess = [([(t, bytes.fromhex(b)) for t, b in segs], [bytes.fromhex(x) for x in reads]) for segs, reads in only["ports"]]
        return judge(sess, only["order"], only.get("reopen_at"))
    for _ in range(ctx.n(10, 150)):
        nports = rng.choice([2, 2, 3])
        sess = []
        for _ in range(nports):
            segs = _gen_segments(rng, rng.randint(2, 6), noise_p=rng.choice([0.0, 0.0, 0.4]), kinds=("free",))
            stream = _stream(segs)
            sess.append((segs, rng.choice(_segmentations(rng, stream, 2))))
        order = [k for k, (_, r) in enumerate(sess) for _ in r]
        rng.shuffle(order)
        reopen_at = rng.choice([None, rng.randrange(len(order) + 1)])
        r = judge(sess, order, reopen_at)
        if r:
            k, w = r
            w = dict(w)
            w["key"] = "ports:" + w["key"]
            w["what"] = (f"{nports} serial gateways alive in one process, port {k}: " + w["what"]
                         + (f" (another gateway was opened after read {reopen_at})" if reopen_at is not None else ""))
            w.update(kind="ports", order=order, reopen_at=reopen_at,
                     ports=[[[[t, b.hex()] for t, b in segs], [c.hex() for c in reads]] for segs, reads in sess])
            return w
    return None


async def _run_reconnect(conns):
    """one client, several connections one after the other; returns the steps of each connection"""
    p = await _Port().open()
    try:
        for k, chunks in enumerate(conns):
            if k:
                await p.reopen()
            for ch in chunks:
                await p.feed(ch)
    finally:
        await p.shut()
    b = p.conn_starts + [len(p.steps)]
    return [p.steps[b[i]:b[i + 1]] for i in range(len(b) - 1)]


def _run_sessions(sessions):
    async def go():
        return [await _run_one(ch) for ch in sessions]
    return asyncio.run(go())


# ------------------------------------------------------------------ streams
def _csum(p) -> int:
    return sum(p[2:19]) & 0xFF


def _valid(p) -> bool:
    """the property's notion of a valid packet, computed here (not by the library, not by the model)"""
    return len(p) == 20 and p[0] == 0xAA and p[1] == 0x55 and (sum(p[2:19]) % 256) == p[19]


_POOL = None


def _pool():
    """real packets: encode_usb of messages decoded from canboat-style lines (single-frame PGNs 127250 and 59904, which
    decode_usb turns back into a message on the unchanged tree)"""
    global _POOL
    if _POOL is not None:
        return _POOL
    from nmea2000.decoder import NMEA2000Decoder
    from nmea2000.encoder import NMEA2000Encoder
    dec, enc = NMEA2000Decoder(), NMEA2000Encoder()
    lines = ["2020-01-01-00:00:00.000,6,59904,1,255,3,00,ee,00",
             "2020-01-01-00:00:00.000,2,127250,1,255,8,01,aa,55,ff,7f,ff,7f,fd"]   # marker inside the body
    for sid in range(0, 250, 5):
        for h in (0x2710, 0x0001, 0xF000 + sid, 0x55AA, 0xAA00 + (sid & 0x7F)):
            lines.append(f"2020-01-01-00:00:00.000,{sid % 8},127250,{sid},255,8,{sid:02x},{h & 255:02x},{h >> 8:02x},ff,7f,ff,7f,fd")
    out, seen = [], set()

    def add(ln, want_last=None):
        """the packet's first 19 bytes come from the library's encoder; the checksum byte is computed HERE from the
        property's definition, so that 'valid packet' does not depend on the library's checksum function"""
        try:
            m = dec.decode_basic_string(ln, True)
            for p in enc.encode_usb(m):
                p = bytes(p[:19]) + bytes([sum(p[2:19]) % 256])
                if want_last is not None and p[19] != want_last:
                    return False
                if len(p) == 20 and p[:2] == MARK and p not in seen:
                    seen.add(p)
                    out.append((p, (m.PGN, m.source)))
                    return True
        except Exception:  # noqa: BLE001
            pass
        return False

    for ln in lines:
        add(ln)
    for last in (0xAA, 0x55):        # packets whose checksum byte is 0xAA / 0x55 (junctions with what follows)
        found = 0
        for h in range(1, 2000):
            if add(f"2020-01-01-00:00:00.000,2,127250,7,255,8,07,{h & 255:02x},{h >> 8:02x},ff,7f,ff,7f,fd", last):
                found += 1
                if found == 2:
                    break
    if len(out) < 20:
        raise RuntimeError("C20 harness: could not build the pool of real USB packets (%d)" % len(out))
    _POOL = out
    return out


def _pool_by(pred):
    return [p for p, _ in _pool() if pred(p)]


def _free_bytes(rng, n):
    """n random bytes without the two-byte marker"""
    b = bytearray(rng.getrandbits(8) for _ in range(n))
    if rng.random() < 0.5:   # make AA and 55 frequent so that near-markers (AA AA, 55 AA, AA x 55) occur
        for i in range(n):
            if rng.random() < 0.4:
                b[i] = rng.choice((0xAA, 0x55, 0xAA, 0x00))
    for i in range(n - 1):
        if b[i] == 0xAA and b[i + 1] == 0x55:
            b[i + 1] = rng.choice((0xAA, 0x54, 0x00))
    return bytes(b)


def _noise(rng, kind=None):
    kind = kind or rng.choice(["empty", "free", "free", "free_aa", "free_55", "aas", "zeros", "marked", "marked",
                               "end_marker", "near_end_marker", "long_free", "long_marked", "one"])
    if kind == "empty":
        return b""
    if kind == "one":
        return bytes([rng.choice((0xAA, 0x55, 0x00, rng.getrandbits(8)))])
    if kind == "free":
        return _free_bytes(rng, rng.randint(1, 45))
    if kind == "free_aa":
        return _free_bytes(rng, rng.randint(0, 30)) + b"\xaa"
    if kind == "free_55":
        return b"\x55" + _free_bytes(rng, rng.randint(0, 30))
    if kind == "aas":
        return b"\xaa" * rng.randint(1, 25)
    if kind == "zeros":
        return bytes(rng.randint(1, 120))
    if kind == "marked":
        parts = [_free_bytes(rng, rng.randint(0, 25))]
        for _ in range(rng.randint(1, 3)):
            parts += [MARK, _free_bytes(rng, rng.randint(0, 30))]
        return b"".join(parts)
    if kind == "end_marker":
        return _free_bytes(rng, rng.randint(0, 30)) + MARK
    if kind == "near_end_marker":
        return _free_bytes(rng, rng.randint(0, 30)) + MARK + _free_bytes(rng, rng.randint(1, 18))
    if kind == "long_free":
        return _free_bytes(rng, rng.randint(100, 700))
    if kind == "long_marked":
        b = bytearray(_free_bytes(rng, rng.randint(100, 700)))
        for _ in range(rng.randint(1, 6)):
            i = rng.randrange(len(b) - 1)
            b[i:i + 2] = MARK
        return bytes(b)
    raise ValueError(kind)


def _packet_seg(rng):
    """one packet-like segment: (tag, bytes). P valid real, V valid random body, C corrupted (still 20 bytes with the
    header), H header damaged, T truncated"""
    r = rng.random()
    pool = _pool()
    p = rng.choice(pool)[0]
    if r < 0.48:
        return ("P", p)
    if r < 0.53:
        # a valid packet whose last byte (the checksum) is 0xAA: half a start marker at the very end of a packet
        q = bytearray(p)
        q[18] = (q[18] + (0xAA - sum(q[2:19])) % 256) % 256
        q[19] = sum(q[2:19]) & 0xFF
        return ("V", bytes(q))
    if r < 0.56:
        # valid header and checksum, content the decoder raises on (a value out of its range): cut out like any packet
        import vloop as _VL
        return ("V", _VL.bad_frame("waveshare", rng.randrange(8)))
    if r < 0.65:
        body = bytearray(rng.getrandbits(8) for _ in range(17))
        if rng.random() < 0.3:
            i = rng.randrange(16)
            body[i:i + 2] = MARK
        q = bytearray(MARK) + body + b"\x00"
        q[19] = _csum(q)
        return ("V", bytes(q))
    if r < 0.80:
        q = bytearray(p)
        i = rng.choice((19, 19, rng.randrange(2, 19)))
        q[i] = (q[i] + rng.randint(1, 255)) & 0xFF
        return ("C", bytes(q))
    if r < 0.87:
        q = bytearray(p)
        i = rng.randrange(2)
        q[i] = rng.choice((0x00, 0x55, 0xAA, 0xAB)) if i == 0 else rng.choice((0x00, 0xAA, 0x54))
        if bytes(q[:2]) == MARK:
            q[1] = 0x54
        return ("H", bytes(q))
    q = bytearray(p)
    k = rng.randint(1, 19)
    i = rng.choice((0, 20 - k, rng.randint(0, 20 - k)))
    del q[i:i + k]
    return ("T", bytes(q))


def _gen_segments(rng, n_items, noise_p=0.6, kinds=None):
    segs = []
    if rng.random() < 0.7:
        segs.append(("N", _noise(rng, kinds and rng.choice(kinds))))
    for _ in range(n_items):
        for _ in range(rng.choice((1, 1, 2, 3))):
            segs.append(_packet_seg(rng))
        if rng.random() < noise_p:
            segs.append(("N", _noise(rng, kinds and rng.choice(kinds))))
    return [s for s in segs if s[1]]


def _stream(segs) -> bytes:
    return b"".join(b for _, b in segs)


def _cut(stream: bytes, sizes):
    out, i = [], 0
    for s in sizes:
        if i >= len(stream):
            break
        out.append(stream[i:i + s])
        i += s
    if i < len(stream):
        out.append(stream[i:])
    return [c for c in out if c]


def _segmentations(rng, stream: bytes, n_random=2):
    """a few segmentations of a long stream (every read 1..100 bytes)"""
    L = len(stream)
    segs = [_cut(stream, [100] * (L // 100 + 1))]
    if L <= 400:
        segs.append(_cut(stream, [1] * L))
    # cuts right inside / before / after every marker and at packet-length distances after it
    cuts = set()
    i = stream.find(MARK)
    while i != -1:
        cuts.update((i, i + 1, i + 2, i + 19, i + 20, i + 21))
        i = stream.find(MARK, i + 1)
    cuts = sorted(c for c in cuts if 0 < c < L)
    pieces, last = [], 0
    for c in cuts:
        pieces.append(stream[last:c])
        last = c
    pieces.append(stream[last:])
    flat = []
    for p in pieces:
        flat.extend(_cut(p, [100] * (len(p) // 100 + 1)))
    segs.append(flat)
    for _ in range(n_random):
        lo, hi = rng.choice(((1, 4), (1, 25), (15, 40), (60, 100), (1, 100)))
        sizes = []
        while sum(sizes) < L:
            sizes.append(rng.randint(lo, hi))
        segs.append(_cut(stream, sizes))
    return [s for s in segs if s]


def _all_segmentations(stream: bytes):
    L = len(stream)
    for mask in range(1 << (L - 1)):
        out, last = [], 0
        for i in range(L - 1):
            if mask >> i & 1:
                out.append(stream[last:i + 1])
                last = i + 1
        out.append(stream[last:])
        yield out


def _sessions(ctx, rng, for_search=False):
    """list of (segments, reads)"""
    pool = _pool()
    pa = pool[0][0]
    pm = _pool_by(lambda p: MARK in p[2:])[0]
    out = []
    if not for_search:
        # (1) every segmentation of short streams around the marker / the kept 0xAA, followed by the rest of a packet
        shorts = [b"\x00\xaa\x55", b"\xaa\xaa\x55\x01", b"\x55\xaa\x55", b"\xaa\x00\xaa\x55", b"\xaa\x55\xaa\x55",
                  b"\x01\x02\xaa", b"\xaa", b"\x07\xaa\xaa\xaa\x55\x02", b"\x55\x55\xaa\xaa", b"\x00\xaa\x00\x55\xaa"]
        for sh in shorts:
            comp = pa[2:] if sh.endswith(MARK) else (pa[1:] if sh.endswith(b"\xaa") else pa)
            whole = sh + comp
            for seg in _all_segmentations(sh):
                out.append(([("N", whole), ("P", pa)], seg + [comp[:7], comp[7:] + pa]))
        # all 2^8 segmentations of noise+marker+start of packet, rest in two reads
        head = b"\x13\xaa" + pa[:7]
        for seg in _all_segmentations(head):
            out.append(([("N", b"\x13\xaa"), ("P", pa), ("P", pm)], seg + [pa[7:] + pm[:5], pm[5:]]))
        # (2) all 1- and 2-cut segmentations of  noise P noise(half marker) P(marker inside) AA
        segs = [("N", b"\x55\x00\xaa"), ("P", pa), ("N", b"\x01\xaa"), ("P", pm), ("N", b"\xaa")]
        s = _stream(segs)
        L = len(s)
        step = 1 if ctx.thorough else 2
        for i in range(1, L):
            out.append((segs, [s[:i], s[i:]]))
        for i, j in itertools.combinations(range(1, L, step), 2):
            out.append((segs, [s[:i], s[i:j], s[j:]]))
        # (3) the same stream after a noise run with a marker 7 bytes before its end (false window swallows 13 bytes)
        segs = [("N", b"\x00\xaa\x55\x01\x02\x03\x04\x05\x06"), ("P", pa), ("P", pm), ("C", pa[:19] + b"\x00"), ("P", pa)]
        s = _stream(segs)
        for i, j in itertools.combinations(range(1, len(s), 3 if not ctx.thorough else 1), 2):
            out.append((segs, [s[:i], s[i:j], s[j:]]))
    # (3b) junctions: a packet ending in 0xAA followed by noise starting with 0x55, by a packet, by 0xAA 0x55 noise
    paa = _pool_by(lambda p: p[19] == 0xAA)
    p55 = _pool_by(lambda p: p[19] == 0x55)
    for k in range(ctx.n(12, 60)):
        a, b = rng.choice(paa), rng.choice(pool)[0]
        for mid in ([("N", b"\x55" + _free_bytes(rng, rng.randint(0, 25)))], [], [("N", b"\x55")], [("N", b"\x55\xaa")],
                    [("P", rng.choice(p55))], [("N", _free_bytes(rng, rng.randint(0, 9)) + b"\xaa")]):
            segs = [s for s in [("N", _noise(rng, "free"))] * (k % 2) + [("P", a)] + mid + [("P", b), ("P", a)] if s[1]]
            s = _stream(segs)
            for reads in _segmentations(rng, s, 1)[:1] + _segmentations(rng, s, 1)[-1:]:
                out.append((segs, reads))
    # (4) random structured streams, several segmentations each
    n = ctx.n(60, 600) if not for_search else ctx.n(150, 1500)
    for k in range(n):
        r = rng.random()
        if r < 0.25:      # only marker-free noise: the no-loss clause
            segs = _gen_segments(rng, rng.randint(1, 8), 0.7, ["empty", "free", "free_aa", "free_55", "aas", "zeros", "one", "long_free"])
            segs = [s for s in segs if s[0] in ("P", "V", "C", "N")]
        elif r < 0.35:    # back-to-back packets only
            segs = _gen_segments(rng, rng.randint(2, 10), 0.0)
        else:
            segs = _gen_segments(rng, rng.randint(1, 8))
        if not segs:
            continue
        s = _stream(segs)
        for reads in _segmentations(rng, s, 2 if not ctx.thorough else 3):
            out.append((segs, reads))
    return out


# ------------------------------------------------------------------ correspondence
def _packed(b) -> str:
    return ctuple(cz(len(b)), hex(int.from_bytes(bytes(b), "little")))


def _c_session(steps):
    """the reads the calls actually got, and what was observed at each"""
    obs = []
    for stp in steps:
        pend = stp["pending"] if stp["exc"] is None else -1      # an exception is not a behaviour of the model
        obs.append(ctuple(clist(ctuple(_packed(r[0]), cbool(r[1])) for r in stp["pk"]), cz(pend)))
    return ctuple(clist(_packed(s["read"]) for s in steps), clist(obs))


def correspond(ctx):
    rng = ctx.rng
    reports = []
    sess = _sessions(ctx, rng)
    runs = _run_sessions([reads for _, reads in sess])
    cases = [_c_session(steps) for steps in runs]
    # balance the shards by literal size (elaborating the literals dominates): deal the cases, largest first, round-robin
    k = 8 if not ctx.thorough else 16
    order = sorted(range(len(cases)), key=lambda i: -len(cases[i]))
    per = -(-len(cases) // k)
    groups = [order[g::k] for g in range(k)]
    perm = [i for g in groups for i in g + [None] * (per - len(g))]      # position in the shuffled list -> session index
    filler = ctuple(clist([]), clist([]))
    r = run_cases("C20", "session", IMPORTS, "list (Z * Z) * list pobs", "chk_session",
                  [cases[i] if i is not None else filler for i in perm], shard=per)
    r["failing"] = sorted(perm[j] for j in r["failing"] if perm[j] is not None)
    r["n"] = len(cases)
    nontriv = [tuple(reads) for (_, reads), steps in zip(sess, runs)
               if any(s["pk"] for s in steps) or any(s["pending"] for s in steps)]
    tags = collections.Counter(t for segs, _ in sess for t, _ in segs)
    fail = r["failing"][:20]
    r.update(name="serial sessions (_receive_impl vs serial_step)",
             distinct_nontrivial=distinct_count(nontriv),
             failing_cases=[{"reads": [c.hex() for c in sess[k][1]], "segs": [[t, b.hex()] for t, b in sess[k][0]],
                             "observed": [{"handed": [[x[0].hex(), x[1], x[2]] for x in s["pk"]], "pending": s["pending"],
                                           "exc": s["exc"]} for s in runs[k]][:40]} for k in fail],
             samples=[{"reads": [c.hex() for c in sess[k][1]][:12],
                       "observed": [{"handed": [[x[0].hex(), x[1]] for x in s["pk"]], "pending": s["pending"]}
                                    for s in runs[k]][:12]} for k in (0, len(sess) // 2, len(sess) - 1)],
             distribution={"sessions": len(sess), "reads": sum(len(rd) for _, rd in sess),
                           "bytes": sum(len(c) for _, rd in sess for c in rd),
                           "packets_handed": sum(len(s["pk"]) for st in runs for s in st),
                           "reached_decode": sum(1 for st in runs for s in st for x in s["pk"] if x[1]),
                           "max_pending": max((s["pending"] for st in runs for s in st), default=0),
                           "segment_tags(session-weighted)": dict(tags)})
    if r["failing"]:
        # diagnosis: do the disagreeing sessions behave like the loop of the pinned tree (F-serialbuf unrepaired)?
        sub = [cases[k] for k in r["failing"][:200]]
        r0 = run_cases("C20", "session0", IMPORTS, "list (Z * Z) * list pobs", "chk_session0", sub, shard=max(1, len(sub)))
        if not r0["failing"] and not r0["errors"]:
            ctx.notes.append("the disagreeing sessions all agree with serial_step0, the loop of the pinned tree: the tree "
                             "under test lacks fixes/F-serialbuf.patch (buffer never trimmed)")
        else:
            ctx.notes.append("the disagreeing sessions do not all agree with the pinned loop either (%d of %d do not)"
                             % (len(r0["failing"]), len(sub)))
    reports.append(r)

    # --- one client over several connections: each starts from an empty buffer (the first ones end inside a packet)
    rc_cases, rc_raw = [], []
    for _ in range(ctx.n(40, 400)):
        conns = []
        for _ in range(rng.choice((2, 2, 3))):
            segs = _gen_segments(rng, rng.randint(1, 4), noise_p=rng.choice([0.0, 0.4]))
            stream = _stream(segs)
            if rng.random() < 0.8 and len(stream) > 25:
                stream = stream[:len(stream) - rng.randint(1, 19)]        # the link breaks inside a packet
            conns.append(rng.choice(_segmentations(rng, stream, 2)))
        rc_raw.append(conns)

    async def go_rc():
        return [await _run_reconnect(c) for c in rc_raw]
    rc_runs = asyncio.run(go_rc())
    rc_cases = [clist(_c_session(steps) for steps in run) for run in rc_runs]
    r = run_cases("C20", "reconnect", IMPORTS, "list (list (Z * Z) * list pobs)", "chk_reconnect", rc_cases,
                  shard=max(1, -(-len(rc_cases) // 4)))
    r.update(name="one client over several connections (_connect_impl between them) vs serial_step from an empty buffer each",
             distinct_nontrivial=distinct_count([tuple(tuple(c) for c in conns) for conns in rc_raw]),
             failing_cases=[{"connections": [[c.hex() for c in conn] for conn in rc_raw[k]]} for k in r["failing"][:20]],
             samples=[{"connections": [[c.hex() for c in conn][:6] for conn in rc_raw[0]]}],
             distribution={"sessions": len(rc_raw), "connections": sum(len(c) for c in rc_raw),
                           "pending_at_link_loss": sum(1 for run in rc_runs for steps in run[:-1] if steps and steps[-1]["pending"])})
    reports.append(r)

    # --- the oracle of the search demands exactly what C20_stream's `must_cut` demands (so the search asks for
    #     nothing the theorems do not state, and nothing less)
    seen, mc, mraw = set(), [], []
    for segs, _ in sess:
        key = tuple(segs)
        if key in seen:
            continue
        seen.add(key)
        req, _, _ = _required(segs)
        mraw.append(segs)
        mc.append(ctuple(clist(ctuple(cbool(t in ("P", "V", "C") and len(b) == 20 and b[:2] == MARK), _packed(b)) for t, b in segs),
                         clist(_packed(b) for b in req)))
    r = run_cases("C20", "must", IMPORTS, "list (bool * (Z * Z)) * list (Z * Z)", "chk_must", mc, shard=max(1, -(-len(mc) // 4)))
    r.update(name="search oracle vs must_cut (statement of C20_stream)", distinct_nontrivial=len(mc),
             failing_cases=[{"segs": [[t, b.hex()] for t, b in mraw[k]]} for k in r["failing"][:20]],
             samples=[{"segs": [[t, b.hex()] for t, b in mraw[-1]][:8]}])
    reports.append(r)

    # --- decode_usb's acceptance test, called directly
    from nmea2000.decoder import NMEA2000Decoder
    from nmea2000.utils import calculate_canbus_checksum
    dec = NMEA2000Decoder()
    orig = dec._decode
    flag = {"r": False}

    def w(*a, **k):
        flag["r"] = True
        return orig(*a, **k)

    dec._decode = w
    pool = _pool()
    ins = []
    for n in range(0, 41):                      # every length around 20, with and without the prefix
        base = bytes(rng.getrandbits(8) for _ in range(n))
        ins.append(base)
        if n >= 2:
            q = bytearray(MARK + base[2:])
            ins.append(bytes(q))
            if n >= 20:
                q[19] = _csum(q)
                ins.append(bytes(q))
    for _ in range(ctx.n(300, 3000)):
        p = bytearray(rng.choice(pool)[0])
        k = rng.random()
        if k < 0.3:
            pass
        elif k < 0.5:
            i = rng.randrange(2, 20)
            p[i] = (p[i] + rng.randint(1, 255)) & 0xFF
        elif k < 0.6:
            i = rng.randrange(2)
            p[i] = rng.getrandbits(8)
        elif k < 0.7:
            p = p[:rng.randint(0, 19)]
        elif k < 0.8:
            p = p + bytes(rng.getrandbits(8) for _ in range(rng.randint(1, 5)))
        else:
            p = bytearray(MARK) + bytes(rng.getrandbits(8) for _ in range(18))
            if rng.random() < 0.7:
                p[19] = _csum(p)
        ins.append(bytes(p))
    gc, codes = [], []
    for p in ins:
        flag["r"] = False
        try:
            dec.decode_usb(p)
            code = 2 if flag["r"] else 1
        except Exception:  # noqa: BLE001
            code = 2 if flag["r"] else 0
        codes.append(code)
        gc.append(ctuple(cbytes(p), cz(code)))
    r = run_cases("C20", "gate", IMPORTS, "list Z * Z", "chk_gate", gc, shard=max(1, -(-len(gc) // 2)))
    r.update(name="decode_usb acceptance test (raise / None / reaches _decode)",
             distinct_nontrivial=distinct_count([p for p in ins if len(p) >= 2]),
             failing_cases=[{"packet": ins[k].hex()} for k in r["failing"][:20]],
             samples=[{"packet": ins[k].hex(), "impl": codes[k]} for k in (45, len(ins) - 1)],
             distribution={"raise": codes.count(0), "none": codes.count(1), "reached_decode": codes.count(2)})
    reports.append(r)
    cs = []
    raw = []
    for _ in range(ctx.n(300, 3000)):
        n = rng.choice((0, 1, 2, 3, 18, 19, 20, 21, 25, rng.randint(0, 40)))
        d = [rng.choice((0, 255, rng.getrandbits(8))) for _ in range(n)]
        raw.append(d)
        cs.append(ctuple(cbytes(d), cz(calculate_canbus_checksum(d))))
    r = run_cases("C20", "csum", IMPORTS, "list Z * Z", "chk_checksum", cs, shard=max(1, len(cs)))
    r.update(name="calculate_canbus_checksum", distinct_nontrivial=distinct_count([d for d in raw if len(d) > 2]),
             failing_cases=[{"data": raw[k]} for k in r["failing"][:20]], samples=[{"data": raw[0]}])
    reports.append(r)
    return reports


# ------------------------------------------------------------------ the property's oracle on the real client
def _required(segs):
    """From the stream's construction alone: the packets that the property says must be cut out, and whether the
    stream never loses synchronisation (then exactly the packets must be cut out).
    Reading: a 'packet' is a 20-byte segment starting AA 55 (valid or with a bad checksum — framing does not look at
    the checksum); everything else is noise. In sync at the start; marker-free noise keeps sync; noise containing the
    marker loses it; out of sync, a packet whose bytes after the header are marker-free may be lost but the packet
    directly behind it must be cut out and sync is regained."""
    merged = []
    for t, b in segs:
        isp = t in ("P", "V", "C") and len(b) == 20 and b[:2] == MARK
        if not isp and merged and merged[-1][0] == "gap":
            merged[-1] = ("gap", merged[-1][1] + b)
        else:
            merged.append(("pkt" if isp else "gap", b))
    sync, half, always = True, False, True
    req = []
    for kind, b in merged:
        if kind == "gap":
            half = False
            if MARK in b:
                sync = False
                always = False
        else:
            if sync or half:
                req.append(b)
                sync, half = True, False
            else:
                half = MARK not in b[2:]
    return req, always, [b for k, b in merged if k == "pkt"]


def _is_subseq(need, have):
    it = iter(have)
    return all(any(x == y for y in it) for x in need)


def _oracle(segs, reads, steps):
    """None, or a witness dict (without the inputs)"""
    known = {p: hdr for p, hdr in _pool()}
    handed = [x for s in steps for x in s["pk"]]
    for s in steps:
        if s["exc"]:
            return {"key": "receive:exception", "what": f"_receive_impl raised {s['exc']} on a non-empty read"}
    # bad checksum never delivered / every accepted known packet reaches the callback
    for s in steps:
        nmsg = 0
        for b, reached, msg, raised in s["pk"]:
            if (msg or reached) and not _valid(b):
                return {"key": "checksum:invalid-packet-delivered",
                        "what": f"packet {b.hex()} (checksum byte {b[19] if len(b) > 19 else None}, sum {sum(b[2:19]) % 256}, "
                                f"length {len(b)}) was passed on by decode_usb"}
            if _valid(b) and b in known and not msg:
                return {"key": "delivery:valid-packet-dropped-by-decode_usb",
                        "what": f"valid packet {b.hex()} (PGN {known[b][0]}) was handed to decode_usb but no message came back"}
            nmsg += 1 if msg else 0
        if nmsg != len(s["cb"]):
            return {"key": "delivery:callback-count", "what": f"{nmsg} messages decoded in one read but the receive callback got {len(s['cb'])}"}
        exp = [known[b] for b, _, msg, _ in s["pk"] if msg and b in known]
        gotk = [(m.PGN, m.source) for m, (b, _, msg, _) in zip(s["cb"], [x for x in s["pk"] if x[2]]) if b in known]
        if exp != gotk:
            return {"key": "delivery:callback-order", "what": f"callback received {gotk}, decoded in order {exp}"}
    req, always, pkts = _required(segs)
    hb = [x[0] for x in handed]
    if always and hb != pkts:
        lost = [p.hex() for p in pkts if p not in hb][:3]
        return {"key": "no-loss:marker-free-noise",
                "what": f"stream with marker-free noise only: {len(pkts)} packets sent, {len(hb)} cut out"
                        + (f"; lost e.g. {lost[0]}" if lost else "; spurious or reordered windows")}
    if not _is_subseq(req, hb):
        return {"key": "resync:more-than-first-packet-lost",
                "what": f"of {len(req)} packets that follow a packet (or marker-free noise in sync) some were not cut out intact; "
                        f"{len(hb)} windows were cut"}
    mx = max((s["pending"] for s in steps), default=0)
    if mx > BOUND:
        return {"key": "bounded:pending-bytes", "what": f"{mx} bytes held back between reads (bound {BOUND}) in a stream of {sum(map(len, reads))} bytes"}
    return None


def _noise_stream(flavour: str, n: int) -> bytes:
    import random
    rng = random.Random("C20-noise-" + flavour)
    if flavour == "zeros":
        return bytes(n)
    if flavour == "aas":
        return b"\xaa" * n
    if flavour == "random-marker-free":
        return _free_bytes(rng, n)
    if flavour == "random":
        return bytes(rng.getrandbits(8) for _ in range(n))
    if flavour == "markers-with-short-tails":      # AA 55 + 5 bytes + 7 other bytes, repeated: many pending windows
        unit = MARK + b"\x01\x02\x03\x04\x05" + b"\x00" * 7
        return (unit * (n // len(unit) + 1))[:n]
    if flavour == "prefix-then-pending-marker":    # 98 bytes of noise and a marker in every read of 100
        unit = b"\x00" * 98 + MARK
        return (unit * (n // 100 + 1))[:n]
    raise ValueError(flavour)


def _bound_run(flavour, n, read):
    s = _noise_stream(flavour, n)
    reads = _cut(s, [read] * (n // read + 1))
    steps = _run_sessions([reads])[0]
    worst, at = 0, 0
    for i, st in enumerate(steps):
        if st["exc"]:
            return {"key": "receive:exception", "what": f"_receive_impl raised {st['exc']} on a non-empty read"}
        if st["pending"] > worst:
            worst, at = st["pending"], i
    if worst > BOUND:
        return {"key": "bounded:pending-bytes",
                "what": f"after {(at + 1) * read} bytes of noise ({flavour}) in reads of {read} the client holds {worst} pending "
                        f"bytes (bound {BOUND}); stream length {n}"}
    return None


def search(ctx):
    out = []
    rng = ctx.rng
    keys = set()
    # the bound: 10^5 bytes of noise of several flavours, reads of 100 and of 7
    n = 100000
    for flavour, read in (("zeros", 100), ("random-marker-free", 100), ("aas", 100), ("prefix-then-pending-marker", 100),
                          ("markers-with-short-tails", 100), ("random", 100), ("random-marker-free", 7)):
        w = _bound_run(flavour, n if read == 100 else n // 5, read)
        if w and w["key"] not in keys:
            keys.add(w["key"])
            w.update(kind="bound", flavour=flavour, n=n if read == 100 else n // 5, read=read)
            out.append(w)
    w = _ports_oracle(ctx, rng)
    if w and w["key"] not in keys:
        keys.add(w["key"])
        out.append(w)
    w = _silence_oracle(ctx, rng)
    if w and w["key"] not in keys:
        keys.add(w["key"])
        out.append(w)
    # then structured sessions; those the correspondence disagreed on first (their construction is known)
    hinted = []
    for h in ctx.hints:
        for c in h.get("cases", []):
            if "reads" in c and "segs" in c:
                hinted.append(([(t, bytes.fromhex(b)) for t, b in c["segs"]], [bytes.fromhex(x) for x in c["reads"]]))
    sess = hinted + _sessions(ctx, rng, for_search=True)
    runs = _run_sessions([reads for _, reads in sess])
    for (segs, reads), steps in zip(sess, runs):
        w = _oracle(segs, reads, steps)
        if w and w["key"] not in keys:
            keys.add(w["key"])
            w.update(kind="session", segs=[[t, b.hex()] for t, b in segs], reads=[c.hex() for c in reads])
            out.append(w)
    return out


def replay(ctx, data):
    w = data.get("witness", data)
    if w.get("kind") == "bound":
        r = _bound_run(w["flavour"], int(w["n"]), int(w["read"]))
    elif w.get("kind") == "silence":
        r = _silence_oracle(ctx, ctx.rng, only=w)
    elif w.get("kind") == "ports":
        r = _ports_oracle(ctx, ctx.rng, only=w)
        r = r and r[1]
    else:
        segs = [(t, bytes.fromhex(b)) for t, b in w["segs"]]
        reads = [bytes.fromhex(x) for x in w["reads"]]
        steps = _run_sessions([reads])[0]
        r = _oracle(segs, reads, steps)
    print("observed:", r["what"] if r else "property holds on this input")
    return r is not None
