#!/bin/sh
# coqchk.sh — re-check every compiled property statement file (and everything it depends on) with Coq's
# independent checker and print the axioms of the whole loaded context (about 4 minutes).
cd "$(dirname "$0")/../coq" || exit 2
MODS=$(ls theories/props/*.v | sed 's|theories/props/\(.*\)\.v|NV.props.\1|')
exec timeout 3000 coqchk -silent -o -Q theories NV $MODS
