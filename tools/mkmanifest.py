#!/venv/bin/python
"""Regenerates /verif/MANIFEST.json from the table below (kept valid at all times)."""
import json, os, sys
HERE = os.path.dirname(os.path.dirname(os.path.abspath(__file__)))
ALL = [f"C{i:02d}" for i in range(1, 21)]

# id -> (technique, level text, level note, design ref)
CLAIMED = {
 "C05": ("Coq proof (div/mod arithmetic via lia) of a hand model + kernel-evaluated correspondence with the code",
         "Theorems C05_build_extract / C05_extract_build / C05_injective / C05_noncanonical / C05_actisense hold for "
         "every integer in range (no enumeration of the 2^29 identifiers) on Header.v; the model is tied to "
         "decoder._extract_header / encoder._build_header by literal and whole-sweep digest cases decided by vm_compute.",
         "Trusted: Coq kernel + vm_compute; the hand model Header.v (tied by sampling incl. a complete sweep of the "
         "18-bit PGN field); Python int semantics = Z. Theorems closed under the global context.",
         "DESIGN.md §5 C05"),
 "C08": ("Coq proof of the generic dispatcher theorem + kernel-checked (vm_compute) equality of tables regenerated "
         "from pgns.py and canboat.json on every run + correspondence of the dispatcher interpreter",
         "C08 (tools/templates/OblC08.v, compiled per run): for every database PGN group in scope and EVERY payload, the "
         "function the translated dispatcher reaches names the definition spec_select yields (first non-fallback "
         "definition in database order whose match fields all equal the payload bits, else fallback, else none). "
         "Generic parts (C08_sem, C08_code, C08_carries, C08_outside) are proved once for all tables and payloads.",
         "Trusted: Coq kernel + vm_compute; translators tools/tr_pgns.py (fail-closed ast) and tools/tr_db.py, cross-examined "
         "by running the real dispatchers against run_disp on the translated tables; Python >>,&,== on ints = Z ops.",
         "DESIGN.md §5 C08"),
 "C01": ("Coq proof that the template's steps, run as the generated code runs them, equal a declarative spec for every "
         "payload + kernel-checked (vm_compute) step-by-step equality of all 417 translated decoders with the template of "
         "their database record, regenerated on every run + correspondence of interpreter and utils models (bit-exact floats)",
         "C01 (tools/templates/OblC01.v, compiled per run): for every fixed-layout database definition (342 of 417, 2650 "
         "fields) and EVERY payload, the translated decode function computes exactly spec_decode (metadata from the record; "
         "value from (p / 2^BitOffset) mod 2^BitLength under signedness, not-available rule, resolution, range, lookup table). "
         "All 417 definitions (incl. variable-layout ones) are compared statement by statement with the template by kernel "
         "computation; lookup dictionaries are proved equal to the database tables. Totality on in-range payloads and the "
         "Offset attribute are decided by the witness search (database semantics evaluated exactly in Python), not by a theorem: partial.",
         "Trusted: Coq kernel + vm_compute + native float/int63 primitives; translators tr_pgns.py/tr_db.py (cross-examined by "
         "running the real generated decoders against run_ddef on the translated tables); hand models Fields.v/PyNum.v of "
         "utils.py and CPython int/float arithmetic, tied by ~12k kernel-decided cases per run. Known finding: database "
         "attribute Offset ignored by the code (23 fields).",
         "DESIGN.md §5 C01"),
 "C20": ("Coq proof (induction on the stream / read history, lemmas on find_marker under ++) of a hand model of the repaired buffer loop + kernel-evaluated (vm_compute) session correspondence with the real WaveShareNmea2000Gateway",
        "C20_chunking (any segmentation = one read of the concatenation), C20_no_loss / C20_no_loss_valid (marker-free noise loses nothing), C20_resync / C20_resync_resume / C20_stream (after ANY bytes at most the first packet is lost, the next is cut intact and the loop is in step again; whole streams of packets and arbitrary gaps via must_cut), C20_checksum / C20_checksum_any (only 20-byte AA 55 windows with matching additive checksum reach _decode), C20_bounded / C20_bounded_step (<= 19 bytes kept after every read, <= 119 while processing, streams of any length), C20_repair_same_packets, C20_pinned_unbounded (F-serialbuf as a theorem about the unrepaired loop). All inputs, segmentations, lengths; no bounded search.",
        "Trusted: Coq kernel + vm_compute; Serial.v as a model of _receive_impl's loop, decode_usb's acceptance test and calculate_canbus_checksum, tied by seeded sessions of the real client (stub reader, exhaustive segmentations of short streams, random ones of long streams); bytearray find/endswith/slice semantics; _decode/queue/callback after the acceptance test are not modelled here (checked on the real client by the search oracle only); non-empty reads (empty read = C13). Theorems closed under the global context.",
        "DESIGN.md §5 C20"),
 "C02": ("Coq proofs (bit-level insert-then-extract over disjoint layouts; sentinel and sign arithmetic) + kernel-checked "
         "equality of all 417 translated encoders with the encoder template of their database record and of the layout side "
         "conditions, regenerated per run + correspondence of encoder interpreter and utils encoder models (bit-exact floats)",
         "C02_bits (tools/templates/OblC02.v, per run): for every encodable definition (263) and EVERY message, each field of "
         "the integer the generated encoder produces reads back as the value its conversion produced (mod 2^len); C02_absent "
         "(None -> not-available pattern -> None), C02_number (accepted numbers read back, sign-extended, as round(value/"
         "resolution), never as not-available), C02_lookup_reserved (raw bits unchanged). PARTIAL: that round(fl(fl(n)*r)/r) = n "
         "on IEEE doubles (the step from 'rounded quotient' to 'the original raw value') is established by the witness search "
         "(every raw value of small fields, boundary classes of all fields) and the design's Flocq spike, not yet by a theorem "
         "in this development.",
         "Trusted: Coq kernel + vm_compute + native float primitives; translators; Encode.v hand model of utils encoders, "
         "Python round() and true division, tied by ~5k kernel-decided cases per run. Known finding: 64-bit field at the very "
         "edge of its range cannot be re-encoded.",
         "DESIGN.md §5 C02"),
 "C09": ("Coq proofs of the decision rules of the encoder model (range rejection, missing field, bit locality, absent) + "
         "per-run kernel-checked encoder tables + correspondence on the value classes of the quantifier text",
         "C09_range (an accepted number's rounded quotient lies in the representable interval with the top code reserved; "
         "two's complement, never wrapped or clipped), C09_missing (a message lacking a listed field is never encoded), "
         "C09_local (changing a field changes only its bits), C09_reads_back, C09_absent; C02_bits for the tables of this run. "
         "PARTIAL: 'decodes back to within half a resolution step' involves IEEE rounding of value/resolution and raw*resolution "
         "and is decided by the encode->decode oracle on the real code, not by a theorem.",
         "Trusted: as C02. Known findings: RESERVED values and LOOKUP raw values are masked without a range check.",
         "DESIGN.md §5 C09"),
 "C03": ("Coq proof (structural induction on 6/7-byte chunking; refinement of the reassembly step to a set-based reference) of a hand model + kernel-evaluated correspondence incl. a complete sweep of 224 lengths x 8 counters",
         "C03_encode/shape/inverse/inverse_interleaved/sequence hold for every payload of 0..223 bytes, every counter, every byte content, every prior decoder state with another counter, any list of messages (counter wrap-around); FastPacket.v tied to _encode_fast_message / _decode_fast_message / _decode by vm_compute cases",
         "Trusted: Coq kernel + vm_compute; hand model FastPacket.v (wire byte order), tied by the complete 224x8 encoder sweep, random cases and decode_tcp histories; Python int/bytes = Z / list Z. Theorems closed under the global context.",
         "DESIGN.md §5 C03"),
 "C04": ("Coq proof: invariant (frame store = filter seen (message frames)), refinement of fp_step to a set-based reference, frame lemma and projection theorem for unbounded histories and streams; kernel-evaluated history correspondence",
         "C04_frame/product/refines/interleave/safety/once/complete/recover/padding/sender/key hold for all histories of any length over any number of (pgn,src,dst) streams under the stated channel model (consecutive counters on a stream differ; stale frames carry another counter; senders satisfy msg_ok, proved for the library's segmenter with up to 6 filler bytes); C04_unrepaired_refuted shows the padding dependence of the code before fix 5097fe2",
         "Trusted: kernel + vm_compute; FastPacket.v tied by adversarial decode_tcp histories incl. final buffer contents; tcp_frame + Header.extract_header stand in for the decode_tcp front end; channel-model hypotheses. Theorems closed under the global context.",
         "DESIGN.md §5 C04"),
}
PENDING_REASON = "not claimed yet: model/theorems for this property are still being built (see DESIGN.md §9 build order)"

def main():
    checks = []
    for pid in ALL:
        if pid not in CLAIMED:
            continue
        tech, text, note, ref = CLAIMED[pid]
        checks.append({
            "property_id": pid,
            "quick_cmd": f"./check {pid} --tier quick",
            "thorough_cmd": f"./check {pid} --tier thorough",
            "evidence_file": f"/verif/evidence/{pid}.json",
            "replay_cmd_template": f"./check {pid} --replay {{path}}",
            "engine": "coq-nv",
            "level_claimed": {"category": "proof", "text": text, "design_ref": ref},
            "level_note": note,
            "technique": tech,
        })
    m = {
        "version": 1,
        "setup_cmd": "./tools/setup.sh",
        "hooks": {
            "guard": "NMEA2000_VERIF",
            "enable": "checks export NMEA2000_VERIF=1, PYTHONPATH=/repo, PYTHONHASHSEED=0 (no hook commits exist: the "
                      "harnesses wrap the library from outside)",
            "baseline_off_cmd": "cd /repo && env -u NMEA2000_VERIF /venv/bin/python -m pytest -ra -q -p no:cacheprovider --timeout=900 --continue-on-collection-errors",
            "source_commits": [],
            "add_only": True,
        },
        "engines": [
            {"name": "coq-nv", "path": "/verif/coq",
             "serves_properties": sorted(CLAIMED),
             "kind_free_text": "Coq 8.16.1 development (models, proofs, props/Cxx.v statement files); full .vo build"},
            {"name": "check-driver", "path": "/verif/tools/check.py",
             "serves_properties": sorted(CLAIMED),
             "kind_free_text": "per-property driver: rebuild, recompile theorem files, regenerate tables from /repo, run "
                               "vm_compute correspondence cases, witness search, evidence"},
        ],
        "checks": checks,
        "not_applicable": [{"property_id": p, "reason": PENDING_REASON} for p in ALL if p not in CLAIMED],
        "notes": "Technique family: machine-checked proof in Coq 8.16. See DESIGN.md.",
    }
    with open(os.path.join(HERE, "MANIFEST.json"), "w") as fh:
        json.dump(m, fh, indent=1)
    try:
        import jsonschema
        jsonschema.validate(m, json.load(open("/root/.vp/MANIFEST.schema.json")))
        print("MANIFEST.json valid,", len(checks), "checks")
    except ImportError:
        print("MANIFEST.json written (jsonschema not available for validation)")

if __name__ == "__main__":
    main()
