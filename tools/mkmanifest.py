#!/venv/bin/python
"""Regenerates /verif/MANIFEST.json from the table below (kept valid at all times)."""
import json, os, sys
HERE = os.path.dirname(os.path.dirname(os.path.abspath(__file__)))
ALL = [f"C{i:02d}" for i in range(1, 21)]

# id -> (technique, level text, level note, design ref)
CLAIMED = {
 "C05": ("Coq proof (div/mod arithmetic via lia) of a hand model + kernel-evaluated correspondence with the code",
         "Theorems C05_build_extract / C05_extract_build / C05_injective / C05_noncanonical / C05_actisense hold for "
         "every integer in range (no enumeration of the 2^29 identifiers) on Header.v; the model is tied to "
         "decoder._extract_header / encoder._build_header by literal and whole-sweep digest cases decided by vm_compute.",
         "Trusted: Coq kernel + vm_compute; the hand model Header.v (tied by sampling incl. a complete sweep of the "
         "18-bit PGN field); Python int semantics = Z. Theorems closed under the global context.",
         "DESIGN.md §5 C05"),
 "C08": ("Coq proof of the generic dispatcher theorem + kernel-checked (vm_compute) equality of tables regenerated "
         "from pgns.py and canboat.json on every run + correspondence of the dispatcher interpreter",
         "C08 (tools/templates/OblC08.v, compiled per run): for every database PGN group in scope and EVERY payload, the "
         "function the translated dispatcher reaches names the definition spec_select yields (first non-fallback "
         "definition in database order whose match fields all equal the payload bits, else fallback, else none). "
         "Generic parts (C08_sem, C08_code, C08_carries, C08_outside) are proved once for all tables and payloads.",
         "Trusted: Coq kernel + vm_compute; translators tools/tr_pgns.py (fail-closed ast) and tools/tr_db.py, cross-examined "
         "by running the real dispatchers against run_disp on the translated tables; Python >>,&,== on ints = Z ops.",
         "DESIGN.md §5 C08"),
 "C01": ("Coq proof that the template's steps, run as the generated code runs them, equal a declarative spec for every "
         "payload + kernel-checked (vm_compute) step-by-step equality of all 417 translated decoders with the template of "
         "their database record, regenerated on every run + correspondence of interpreter and utils models (bit-exact floats)",
         "C01 (tools/templates/OblC01.v, compiled per run): for every fixed-layout database definition (342 of 417, 2650 "
         "fields) and EVERY payload, the translated decode function computes exactly spec_decode (metadata from the record; "
         "value from (p / 2^BitOffset) mod 2^BitLength under signedness, not-available rule, resolution, range, lookup table). "
         "C01_var (same module, per run; SpecVar.v / SpecVarProofs.v): for ALL 417 definitions that own a function - the 75 "
         "variable-layout ones included (STRING_LAU / STRING_LZ, fields without BitOffset, BINARY with BitLengthField, INDIRECT_LOOKUP) - "
         "and EVERY payload the translated decoder computes exactly spec_decode_var, the specification that threads the bit position "
         "through the fields; C01_var_extends: on fixed-layout definitions it is spec_decode; C01_var_offsets: a database BitOffset and "
         "the running position agree. "
         "All 417 definitions are compared statement by statement with the template by kernel "
         "computation; lookup dictionaries are proved equal to the database tables. C01_in_range_total / C01_within_tolerance_total "
         "(RangeProofs.v, Flocq): an available raw value whose exact product raw x resolution lies inside [RangeMin, RangeMax] (also: "
         "within the decoder's 1e-12 tolerance) is never rejected and decodes to the correctly rounded double of raw x resolution "
         "(relative error <= 2^-53), for |raw| < 2^53 and ordinary resolutions; boolean, kernel-computable forms of the hypotheses are "
         "provided. END TO END (tools/templates/OblE2E.v, per run; EndToEnd.v composes the wire front-ends, the control layer, the "
         "dispatcher tables and the decoder tables): E2E_any_entry / E2E_single_frame / E2E_all_formats / E2E_undispatched / E2E_claim "
         "- for an unfiltered decoder in ANY state, every entry point, every identifier and data: the returned message has the "
         "PGN/id of the definition the database rule selects, source/destination/priority of the frame, the stored identity, and "
         "exactly spec_decode's fields (342 fixed-layout definitions), tied to the real decoder by whole-history correspondence "
         "incl. final source map and reassembly store; E2E_fast_packet / E2E_fast_any_entry (OblE2Efast.v): the same FRAME BY FRAME for "
         "fast-packet PGNs (199 of the 342 fixed-layout definitions): the EByte packets of segment seq payload, from any state whose "
         "record for the key is fresh, return nothing until the last frame and then the expected message, source map unchanged, key removed. "
         "E2E_any_entry_var / E2E_single_frame_var / E2E_all_formats_var / E2E_undispatched_var / E2E_claim_var and E2E_fast_*_var (same "
         "modules): the same end-to-end statements for EVERY definition of var_def with spec_decode_var's fields - all 417 definitions "
         "owning a function, the 75 variable-layout ones included (272 of them fast-packet, frame by frame); E2E_claim_var is the one "
         "that applies to the real address-claim definition (it carries an INDIRECT_LOOKUP). "
         "PARTIAL: the database attribute Offset (23 fields) is ignored by the code (known finding) and is decided by the "
         "witness search; malformed variable-length strings get the lenient reading documented in SpecVar.v.",
         "Trusted: Coq kernel + vm_compute + native float/int63 primitives; translators tr_pgns.py/tr_db.py (cross-examined by "
         "running the real generated decoders against run_ddef on the translated tables); hand models Fields.v/PyNum.v of "
         "utils.py and CPython int/float arithmetic, tied by ~12k kernel-decided cases per run. Known finding: database "
         "attribute Offset ignored by the code (23 fields).",
         "DESIGN.md §5 C01"),
 "C20": ("Coq proof (induction on the stream / read history, lemmas on find_marker under ++) of a hand model of the repaired buffer loop + kernel-evaluated (vm_compute) session correspondence with the real WaveShareNmea2000Gateway",
        "C20_chunking (any segmentation = one read of the concatenation), C20_no_loss / C20_no_loss_valid (marker-free noise loses nothing), C20_resync / C20_resync_resume / C20_stream (after ANY bytes at most the first packet is lost, the next is cut intact and the loop is in step again; whole streams of packets and arbitrary gaps via must_cut), C20_checksum / C20_checksum_any (only 20-byte AA 55 windows with matching additive checksum reach _decode), C20_bounded / C20_bounded_step (<= 19 bytes kept after every read, <= 119 while processing, streams of any length), C20_repair_same_packets, C20_pinned_unbounded (F-serialbuf as a theorem about the unrepaired loop). All inputs, segmentations, lengths; no bounded search.",
        "Trusted: Coq kernel + vm_compute; Serial.v as a model of _receive_impl's loop, decode_usb's acceptance test and calculate_canbus_checksum, tied by seeded sessions of the real client (stub reader, exhaustive segmentations of short streams, random ones of long streams); bytearray find/endswith/slice semantics; _decode/queue/callback after the acceptance test are not modelled here (checked on the real client by the search oracle only); non-empty reads (empty read = C13). Theorems closed under the global context.",
        "DESIGN.md §5 C20"),
 "C02": ("Coq proofs (bit-level insert-then-extract over disjoint layouts; sentinel and sign arithmetic) + kernel-checked "
         "equality of all 417 translated encoders with the encoder template of their database record and of the layout side "
         "conditions, regenerated per run + correspondence of encoder interpreter and utils encoder models (bit-exact floats)",
         "C02_bits (tools/templates/OblC02.v, per run): for every encodable definition (263) and EVERY message, each field of "
         "the integer the generated encoder produces reads back as the value its conversion produced (mod 2^len); C02_absent "
         "(None -> not-available pattern -> None), C02_number (accepted numbers read back, sign-extended, as round(value/"
         "resolution), never as not-available), C02_lookup_reserved (raw bits unchanged). C02_float "
         "(Flocq error analysis on the executable model functions, proved for all bits/len/resolution): whatever decode_number produced from a "
         "field's bits (None for the not-available pattern, else the double fl(fl(n)*resolution) or the int n*k that passed the range "
         "check), encode_number turns back into exactly those bits, for float resolutions 2^-300<=|r|<=2^300 and fields up to 48 bits "
         "(49 signed), integer resolutions while 2^len*k<=2^53; C02_numeric_fields (per run): every NUMBER/DATE/TIME/DURATION field of "
         "at most 48 bits of every encodable definition in the regenerated tables satisfies those hypotheses. C02_roundtrip (tools/templates/OblC02rt.v, per run; generic "
         "form C02_roundtrip_def): END TO END for 262 of the 263 encodable definitions of the regenerated tables and EVERY payload: "
         "whatever message the generated decoder returns, the generated encoder run on it returns an integer that agrees with the "
         "payload on every bit of every field (1826 fields; composition of C01's decoder theorem, C02_float and C02_bits). The one "
         "definition outside (129029, 64-bit fields: the property only asks for closeness there) is decided by the witness search.",
         "Trusted: Coq kernel + vm_compute + native float primitives; translators; Encode.v hand model of utils encoders, "
         "Python round() and true division, tied by ~5k kernel-decided cases per run. C02_float depends on the primitive-float/Uint63 "
         "specification axioms of Coq.Floats.FloatAxioms, the real-number axioms (ClassicalDedekindReals.sig_forall_dec, sig_not_dec, "
         "functional_extensionality_dep) and Classical_Prop.classic via Flocq/Reals — all standard-library axioms, listed by Print "
         "Assumptions in the evidence. Known finding: 64-bit field at the very edge of its range cannot be re-encoded.",
         "DESIGN.md §5 C02"),
 "C09": ("Coq proofs of the decision rules of the encoder model (range rejection, missing field, bit locality, absent) + "
         "per-run kernel-checked encoder tables + correspondence on the value classes of the quantifier text",
         "C09_range (an accepted number's rounded quotient lies in the representable interval with the top code reserved; "
         "two's complement, never wrapped or clipped), C09_missing (a message lacking a listed field is never encoded), "
         "C09_local (changing a field changes only its bits), C09_reads_back, C09_absent; C02_bits for the tables of this run; "
         "C09_enc_lookups for this run: the regenerated encode table of every LOOKUP field is the inverted database table. "
         "C09_half_step (RangeProofs.v, Flocq): every accepted value v is encoded to a raw n with |n*resolution - v| <= |resolution|/2 + "
         "2^-53*|v| (all four int/float typings; C09_half_step_int: 2|n*k - v| <= k for |v| < 2^52, k+1 up to 2^53 - the double "
         "quotient can round a near-tie - with a kernel-evaluated example that agrees with CPython); C09_decodes_back_close: decoding "
         "that raw value again gives v back to within half a step plus two relative roundings.",
         "Trusted: as C02. Known findings: RESERVED values and LOOKUP raw values are masked without a range check.",
         "DESIGN.md §5 C09"),
 "C03": ("Coq proof (structural induction on 6/7-byte chunking; refinement of the reassembly step to a set-based reference) of a hand model + kernel-evaluated correspondence incl. a complete sweep of 224 lengths x 8 counters",
         "C03_encode/shape/frames/inverse/inverse_interleaved/sequence hold for every payload of 0..223 bytes, every counter, every byte content, every prior decoder state with another counter, any list of messages (counter wrap-around); FastPacket.v tied to _encode_fast_message / _decode_fast_message / _decode by vm_compute cases",
         "Trusted: Coq kernel + vm_compute; hand model FastPacket.v (wire byte order), tied by the complete 224x8 encoder sweep, random cases and decode_tcp histories; Python int/bytes = Z / list Z. Theorems closed under the global context.",
         "DESIGN.md §5 C03"),
 "C04": ("Coq proof: invariant (frame store = filter seen (message frames)), refinement of fp_step to a set-based reference, frame lemma and projection theorem for unbounded histories and streams; kernel-evaluated history correspondence",
         "C04_frame/product/refines/interleave/safety/once/complete/recover/padding/sender/key hold for all histories of any length over any number of (pgn,src,dst) streams under the stated channel model (consecutive counters on a stream differ; stale frames carry another counter; senders satisfy msg_ok, proved for the library's segmenter with up to 6 filler bytes); C04_unrepaired_refuted shows the padding dependence of the code before fix 5097fe2; C04_control_layer_step/run/inverse: the reassembly step written independently inside the control-layer model (DecoderCtl.v, C10/C11/C16) is the same function, so these theorems hold for it",
         "Trusted: kernel + vm_compute; FastPacket.v tied by adversarial decode_tcp histories incl. final buffer contents; tcp_frame + Header.extract_header stand in for the decode_tcp front end; channel-model hypotheses. Theorems closed under the global context.",
         "DESIGN.md §5 C04"),

 "C06": ("Coq proof (structural induction on byte lists / token lists; arithmetic modulo 256 for the checksum) of hand models of the four encoders and four parsers + kernel-evaluated (vm_compute) correspondence with encoder.py/decoder.py on seeded frames, lines and malformed input",
         "C06_roundtrip_ebyte/usb/yd/actisense: for EVERY canonical header and frame list (data of 0..8 bytes; lines need >= 1 byte) the encoder's packets are parsed back by the matching parser to the same (pgn, priority, source, destination, data); C06_sizes: every EByte packet has 13 bytes, every USB packet 20 bytes with checksum = byte 19, every Yacht Devices packet is one line ending in CR LF with no CR/LF inside; C06_checksum / C06_checksum_any: changing any one of bytes 2..19 of ANY accepted USB packet to ANY other value makes decode_usb reject it; C06_split: a concatenation of packets is cut back into the same packets by fixed 13-byte reads, 20-byte windows / the serial marker search, and line reads. END TO END (EncEndToEnd.v, per run tools/templates/OblEncE2E.v): ENC_E2E_ebyte / ENC_E2E_usb (120 single-frame definitions), ENC_E2E_actisense (250 of the 263 encodable definitions), ENC_E2E_fast_frames (130 fast-packet definitions): for every payload p the decoder accepts and every canonical header, the packets the composed ENCODER model emits for the decoded message (function lookup by PGN/id, generated encoder, fast-packet segmentation with the 3-bit counter, wire format), given to the composed DECODER model, return the message with the same PGN, id, addressing, priority and ALL the same fields: decode(encode(decode p)) = decode p; the encoder model is tied to the real NMEA2000Encoder by call-by-call correspondence of message sequences incl. refusals; E2E_fast_roundtrip_ebyte / _usb (OblE2EfastEnc.v): for 130 fast-packet definitions the encoder's packets fed frame by frame to the composed decoder (control-layer reassembly) return the message at the last frame.",
         None, "DESIGN.md §5 C06"),
 "C07": ("Coq proof (one theorem over all renderings of a frame in the five input grammars, by induction on token lists) of hand models of the five front-ends down to the argument tuple handed to _decode + kernel-evaluated correspondence of every front-end with the real parsers",
         "C07_frontends: for EVERY 29-bit identifier and data bytes, every EByte packet (any flag bits, any padding), every USB packet (any type/reserved bytes, padding), every canboat line (either time-stamp form, any decimal spelling, hex tokens in any case, extra tokens), every Yacht Devices line (R/T, any hex case, leading zeros, trailing whitespace) and every Actisense line carrying that frame hands _decode the SAME tuple (pgn, priority, source, destination, reversed data) — so everything behind _decode is identical; C07_assembled: frame-by-frame delivery through any mix of the three frame-level formats reassembles (for any segmenter/reassembler pair that is inverse, instantiated by C03) to exactly what the pre-assembled formats hand over in one call; C07_assembled_fastpacket: the same with the library's own segmenter and reassembler (C03) and no abstract hypothesis left. END TO END (OblE2E.v, per run): E2E_all_formats - for every rendering of a frame in the five grammars an unfiltered decoder in any state returns the SAME message (PGN/id selected by the database rule, addressing, identity, spec_decode's fields), with whole-history correspondence of the composed model against the real decoder through all five entry points.",
         None, "DESIGN.md §5 C07"),
 "C10": ("Coq proof by induction over the call history (simulation between the filtered and the unfiltered decoder run: equal source maps, reassembly stores related by the numeric pre-filter) of a hand model of the repaired filter logic, for all configurations and all databases satisfying two checked hypotheses + kernel-evaluated history correspondence with the real decoder",
         "Theorem C10: for EVERY filter configuration the constructor accepts (numbers, ids in any letter case, mixed, with/without the claim PGN, empty) and EVERY history, position by position the filtered decoder returns exactly the unfiltered decoder's message when its PGN is permitted (same message value) and nothing otherwise, and both decoders hold the same source map after every call (claims update it even when filtered). C10_for_this_code (tools/templates/OblC10.v, per run): the same statement for the decoders GENERATED in this tree - the database hypotheses (decode_pgn_N builds PGN N; id isoAddressClaim <-> 60928; 60928 single-frame) are decided by the kernel on the regenerated tables (C10_hypotheses_decidable) and the theorem is instantiated with the composed table decode function.",
         None, "DESIGN.md §5 C10"),
 "C11": ("Coq proof (invariant: source map = identity_after history, by induction over histories) of a hand model of the claim handling / manufacturer filter / discovery window + kernel-evaluated history correspondence with the real decoder",
         "C11_identity (every returned message carries the identity decoded from the most recent decodable claim of its own source, or none), C11_srcmap (the map IS that specification after any history), C11_isolation (a call from one address never changes another address's entry, from any state), C11_manufacturer (a returned non-claim message of a claimed source passed the exclude/include lists case-insensitively; unknown manufacturer passes no include list), C11_discovery (network map on, inside the window: nothing but claims from an unclaimed source). The clock is an input bit per call (inside / outside the window). C11_*_for_this_code (OblC10.v, per run): the same theorems instantiated with the regenerated tables, no database hypothesis left.",
         None, "DESIGN.md §5 C11"),
 "C12": ("Coq proof (induction over chunk lists and over runs of a labelled transition system of StreamReader + receive task + queue + consumer, with a delivery invariant and a progress measure) of a hand model + kernel-evaluated trace correspondence with the real clients on a virtual-time event loop; serial framing by C20_chunking",
         "C12_chunking_ebyte / _lines (packets cut out are independent of the segmentation), C12_chunking_any_schedule (and of the interleaving of arrivals, receive steps and callbacks), C12_delivery (in EVERY run the callback has been invoked on a prefix of the expected message list, rest queued in order: nothing else, nothing twice, nothing reordered, whatever callbacks return/raise/suspend; at quiescence exactly the list), C12_decode_error_skipped, C12_progress_enabled / _measure (delivery cannot get stuck), stability lemmas for readline/readexactly. The decoder is a universally quantified state-passing function. Waveshare framing: C20's theorems (C12_chunking_serial); its queue/consumer is the same model. C12_delivery_ebyte_for_this_code (tools/templates/OblC12.v, per run): the same theorem with `decode` instantiated by the composed decoder of the regenerated tables (front-end, filters, identity, reassembly, dispatcher, per-definition decoder) for every filter configuration and initial decoder state.",
         None, "DESIGN.md §5 C12"),
 "C15": ("Coq proof (structural induction over field lists of the tree printer/parser; run induction for the dump) of a hand model of to_json/from_json above orjson's text layer and of the dump filter + kernel-evaluated correspondence on decoded messages of all field types",
         "C15_fields_partial (for every message without a non-finite double: PGN, id, addressing and per field id, value and raw value survive to_json/from_json up to the stated renderings), C15_full_is_false (the unguarded statement is refuted: NaN -> null -> None, known finding), C15_fields (what every attribute looks like without the guard), C15_reencode (ANY encoder reading only JSON-exact components yields the same bytes or the same failure from the parsed message), C15_dump / C15_dump_filter (the dump holds exactly the JSON lines of returned messages matching number / lower-cased id / empty filter, in order). PARTIAL: orjson's text layer is assumed (exercised by re-parsing every text with the standard json module).",
         None, "DESIGN.md §5 C15"),
 "C16": ("Coq proofs about the decoder-control step function from ANY state (frame lemmas per reassembly key, error neutrality, determinism, product of instances) + fail-closed ast check of shared mutable state in __init__ (tools/tr_init.py) + kernel-evaluated multi-instance history correspondence",
         "C16_error_neutral (a raising call leaves the source map and every other key's record alone), C16_ignored, C16_frame (no call touches another key's record), C16_single (a single-frame result depends only on configuration, its source's map entry and the clock bit), C16_fast_fresh / C16_fast_inorder (a fast-packet message with a fresh counter gives the same results after ANY garbage history, namely the decode of its payload), C16_fresh_decoder, C16_deterministic, C16_product (several decoders alive at once: each returns what it returns alone). PARTIAL: absence of aliasing between Python objects is a syntactic freshness check plus differential runs, not a heap proof.",
         None, "DESIGN.md §5 C16"),
 "C17": ("Coq proof (injectivity of the '_'-joined key over typed key signatures; congruence) of a hand model of the hash key, md5 and str(float) universally quantified + per-run kernel-checked table obligation (OblC17: key signatures of all definitions regenerated from pgns.py/canboat.json) + correspondence real msg.hash = md5(model key)",
         "C17_congruence (equal id and equal primary-key raw values => equal hash whatever else differs), C17_units (unit conversion leaves hash, id, key raw values alone), C17_key_injective (the key string is injective in (id, key raw values) for every signature table with a text key last), C17 (hashes differ when id or a key raw value differs, given md5 does not collide on the two keys), C17_on / C17_off (hash set iff network mapping on). PARTIAL: md5 collision-freeness is a premise; F-none-text guard (text key literally 'None').",
         None, "DESIGN.md §5 C17"),
 "C18": ("Coq proof (frame theorem field by field; exact characterisation of recognised (quantity, preference) pairs; commutation with decoding) of a hand model of apply_preferred_units and the converters on primitive floats, round(x,n)/math.degrees universally quantified + kernel-evaluated correspondence (bit-exact floats)",
         "C18_frame (field by field either unchanged or ONLY value and unit label changed; all message attributes kept), C18_recognised (exactly TEMPERATURE c/f, PRESSURE bar/psi, ANGLE deg, SPEED kts), C18_lowercase, C18_absent (None stays None), C18_converted_float/int (the formula fed to round), C18_unrecognised (nothing changes), C18_total (no exception on decoder-produced values), C18_commutes (decoding with preferences = converting after decoding without). PARTIAL: numerical accuracy of round(x, n) and math.degrees is assumed (sampled against exact rationals by the search).",
         None, "DESIGN.md §5 C18"),
 "C19": ("Coq proof (invariants over all runs of a labelled transition system of any number of concurrent send() calls with environment-chosen write/drain/callback outcomes) of a hand model of the repaired send() + kernel-evaluated trace correspondence with the four real clients on a virtual-time loop",
         "C19_exact / C19_exact_call (the packets written by one send are exactly the encoder's packets for its message, in order: all when completed, a prefix in flight or after a fault, none after a failed encoding), C19_contiguous / C19_writer_holds_lock (in EVERY run the writes of two sends do not interleave), C19_bad_message / C19_no_encoder (an encoding failure writes nothing and leaves state, writer, lock, reconnect trigger, status trace and every other send unchanged), C19_write_fault (a failing write/drain releases the lock, reports DISCONNECTED once unless CLOSED and creates a connect task). The encoder is a universally quantified state-passing function; SendProofs.unlocked_interleaves refutes contiguity for the code before fix 22721ce. C19_exact_for_this_code / C19_contiguous_for_this_code (tools/templates/OblC19.v, per run): the same theorems with `encode` instantiated by the composed encoder of the regenerated tables (function lookup, generated encoder, segmentation with the shared counter as encoder state, wire format).",
         None, "DESIGN.md §5 C19"),

 "C13": ("Coq proof of inductive invariants of a labelled transition system (hand model of ioclient.py: connect/_receive_loop/send/close/"
         "_process_queue/_update_state, the four read behaviours, tenacity back-off) over ALL runs and schedules + kernel-evaluated "
         "acceptance of labelled traces of the four real client classes under fault injection at every event-loop step",
         "C13_fault_reported / C13_reconnect_never_lost / C13_reconnect_progress / C13_retry_delay / C13_retry_continues / C13_backoff / "
         "C13_connect_succeeds / C13_connect_finishes / C13_single_receive_path / C13_never_monopolises hold for every client kind, every reachable "
         "state and every run of any length of ClientLTS.v with all repairs on; the defects F-eofspin and F-connect-lost are runs of the "
         "same model with the repair off (C13_eofspin_as_it_was, C13_connect_lost_as_it_was). All statements are also for clients that run the network-map seeding task (model parameter sd): a fault of a seeding send is reported and reconnected like any other, its steps are quiet steps of the inevitability theorems and a state at rest has no seeding task left. Inevitability under a quiet environment is PROVED (ClientLTSLive.v): an explicit "
         "measure lmu strictly decreases on every step of the client's own machinery with an accepting gateway (C13_recovery_terminates); a "
         "reachable non-CLOSED state with no such step enabled is at rest CONNECTED with a live receive task, or was never asked to connect "
         "(C13_no_deadlock_before_recovery); hence every maximal quiet run after a fault has at most lmu x steps and ends recovered "
         "(C13_recovery_inevitable, C13_recovery_inevitable_after_fault). Remaining assumption: an enabled step is eventually taken and the "
         "peer/application stay quiet meanwhile. 'Own step' carries a realism side condition (a suspended read resumes only when it can make "
         "progress; a read enqueues at most one message per consumed byte): without it the model, an over-approximation, has a self-loop "
         "(C13_quiet_only_refuted_spurious_wakeup). Also: a reconnect is always pending after a fault (C13_reconnect_never_lost), its machinery "
         "is never stuck (C13_reconnect_progress), C13_recovery_possible (<= 5 steps); delays in "
         "[0.5 s, 10 s] growing and capped; bursts without yielding bounded by buffered bytes / queued messages. Delivery after recovery is "
         "C12 on the new reader (and the per-connection delivery rule of the session oracle).",
         "Trusted: Coq kernel + vm_compute; the hand model ClientLTS.v, tied by ~1200 (quick) / ~4400 (thorough) real sessions whose labelled "
         "traces with state snapshots the kernel accepts; which awaits suspend, FIFO ready queue, cancellation (CPython 3.12 asyncio) "
         "modelled not verified; tools/vloop.py (virtual-time loop, fake transports, block -> label); failing attempts raise 8 exception "
         "classes incl. OSError/gaierror/SerialException; well-framed undecodable frames in all four wire formats at every position. "
         "Theorems closed under the global context.",
         "DESIGN.md §10.7"),
 "C14": ("Coq proof of inductive invariants of the same labelled transition system over ALL runs and schedules + kernel-evaluated acceptance of "
         "labelled traces of the four real clients with close() injected at every event-loop step x status callbacks that return/raise/are slow",
         "C14_closed_absorbing / C14_link_shut_current / C14_link_shut_new / C14_after_close_returned / C14_background_tasks_finish / "
         "C14_status_once_per_change / C14_status_trace_faithful / C14_status_trace_no_repeat / C14_callback_exception_harmless for every client "
         "kind and every run; close() may be called any number of times (further calls are tasks of their own: AClose2Entry / AClose2Timer): C14_every_close_return_link_shut - whenever ANY close() call returns the state is CLOSED, the current link is shut (exception: a serial port whose configuration drain is pending) and no receive task can read; C14_close_guard_as_it_would_be is the counter-run for an idempotence guard `if state == CLOSED: return` (model switch fg). The network-map seeding task is part of the model (parameter sd of trans/run/reachable; every theorem is forall k sd): created by the connect() success step, its three sleeps and three sends (through the send machinery of the model, faults included) are labels ASeedStart/ASeedTimer/ASeedDrainDone/ASeedCbDone; C14_background_tasks_finish includes them (after close() every seeding task ends: explicit measure), C14_seeding_task_finishes_after_close is a concrete run; the netmap sessions are accepted by the acceptor with sd = true. F-closerace is a run of the model with the repair off (C14_closerace_as_it_was). C14_link_shut_full is a THEOREM for the model with repair 7a732b1 (every connection obtained after "
         "close() is closed once close() returned and the connect() in flight finished; C14_drainleak_as_it_was is the counter-run without "
         "the repair). PARTIAL: (2) after close() returned a receive task created by a connect() that was inside its status callback may exist "
         "for one step (never reads); (3) user send() coroutines are outside the termination measure; (4) close() awaited from inside a status/receive callback (on one of the client's own tasks) is outside the LTS and is decided on the real clients by the property oracle (120 sessions per run); the defect repaired by 8427f0d was found and is checked there.",
         "Trusted: as C13; tools/props/c14.py oracle (state stays CLOSED, no attempt after CLOSED, no receive callback after close() returned, "
         "writers closed, no pending task, status trace = state changes, raise/return differential). Theorems closed under the global context.",
         "DESIGN.md §10.7"),
}
PENDING_REASON = "not claimed yet: model/theorems for this property are still being built (see DESIGN.md §9 build order)"

def auto_note(pid):
    """level note from the harness module's own TRUSTED / ASSUMPTIONS lists"""
    sys.path.insert(0, os.path.join(HERE, "tools"))
    import importlib
    mod = importlib.import_module(f"props.{pid.lower()}")
    t = "; ".join(getattr(mod, "TRUSTED", []))
    a = "; ".join(getattr(mod, "ASSUMPTIONS", []))
    return ("Trusted: Coq kernel + vm_compute; " + t + ". Assumptions: " + a +
            ". Theorem files end each theorem with Print Assumptions (recorded in the evidence file).")


def main():
    checks = []
    for pid in ALL:
        if pid not in CLAIMED:
            continue
        tech, text, note, ref = CLAIMED[pid]
        if note is None:
            note = auto_note(pid)
        checks.append({
            "property_id": pid,
            "quick_cmd": f"./check {pid} --tier quick",
            "thorough_cmd": f"./check {pid} --tier thorough",
            "evidence_file": f"/verif/evidence/{pid}.json",
            "replay_cmd_template": f"./check {pid} --replay {{path}}",
            "engine": "coq-nv",
            "level_claimed": {"category": "proof", "text": text, "design_ref": ref},
            "level_note": note,
            "technique": tech,
        })
    m = {
        "version": 1,
        "setup_cmd": "./tools/setup.sh",
        "hooks": {
            "guard": "NMEA2000_VERIF",
            "enable": "checks export NMEA2000_VERIF=1, PYTHONPATH=/repo, PYTHONHASHSEED=0 (no hook commits exist: the "
                      "harnesses wrap the library from outside)",
            "baseline_off_cmd": "cd /repo && env -u NMEA2000_VERIF /venv/bin/python -m pytest -ra -q -p no:cacheprovider --timeout=900 --continue-on-collection-errors",
            "source_commits": [],
            "add_only": True,
        },
        "engines": [
            {"name": "coq-nv", "path": "/verif/coq",
             "serves_properties": sorted(CLAIMED),
             "kind_free_text": "Coq 8.16.1 development (models, proofs, props/Cxx.v statement files); full .vo build"},
            {"name": "check-driver", "path": "/verif/tools/check.py",
             "serves_properties": sorted(CLAIMED),
             "kind_free_text": "per-property driver: rebuild, recompile theorem files, regenerate tables from /repo, run "
                               "vm_compute correspondence cases, witness search, evidence"},
            {"name": "translators", "path": "/verif/tools/tr_pgns.py",
             "serves_properties": [p for p in ("C01", "C02", "C07", "C08", "C09", "C10", "C11", "C16", "C17") if p in CLAIMED],
             "kind_free_text": "fail-closed Python-ast translator of nmea2000/pgns.py (decoders, encoders, dispatchers, fast table, "
                               "lookup dictionaries) and tr_db.py (canboat.json) into Coq tables, regenerated on every run; the "
                               "per-run obligation modules tools/templates/Obl*.v are kernel-checked against them"},
            {"name": "virtual-loop", "path": "/verif/tools/vloop.py",
             "serves_properties": [p for p in ("C12", "C13", "C14", "C19") if p in CLAIMED],
             "kind_free_text": "virtual-time asyncio event loop, fake transports and method wrappers (vloop.py, vloop_rxs.py) that "
                               "turn sessions of the four real client classes into labelled traces for the Coq acceptors"},
        ],
        "checks": checks,
        "not_applicable": [{"property_id": p, "reason": PENDING_REASON} for p in ALL if p not in CLAIMED],
        "notes": "Technique family: machine-checked proof in Coq 8.16. See DESIGN.md.",
    }
    with open(os.path.join(HERE, "MANIFEST.json"), "w") as fh:
        json.dump(m, fh, indent=1)
    try:
        import jsonschema
        jsonschema.validate(m, json.load(open("/root/.vp/MANIFEST.schema.json")))
        print("MANIFEST.json valid,", len(checks), "checks")
    except ImportError:
        print("MANIFEST.json written (jsonschema not available for validation)")

if __name__ == "__main__":
    main()
