#!/venv/bin/python
"""seed_corpus.py [-j N] <seeded/Cxx-k> ...

Builds the regression corpus corpus/<Cxx>/<seed>-<n>.json from the seeded changes: for each one the property's quick
check is run against a scratch worktree with the change applied (tools/seedeval.sh: private build and output
directories, /repo itself is not touched); the replay files of the violations it reports WITH a concrete input are
candidates; a candidate is kept when, replayed against the unchanged /repo, the property holds on it (it is an input
that distinguishes the changed tree from the unchanged one). check.py replays the corpus on every run.
Run it only while nothing else is patching /repo."""
import concurrent.futures
import glob
import json
import os
import shutil
import subprocess
import sys

VERIF = os.path.dirname(os.path.dirname(os.path.abspath(__file__)))


def one(d):
    d = os.path.abspath(d)
    name = os.path.basename(d)
    prop = name.split("-")[0]
    p = subprocess.run([os.path.join(VERIF, "tools", "seedeval.sh"), prop, d, "quick"], capture_output=True, text=True)
    line = (p.stdout.strip().splitlines() or ["?"])[-1]
    kept = []
    cands = []
    for f in sorted(glob.glob(os.path.join(d, "eval", "replays", "*.json"))):
        try:
            data = json.load(open(f))
        except Exception:  # noqa: BLE001
            continue
        if data.get("no_failing_input_found") or not isinstance(data.get("witness"), dict):
            continue
        if str(data["witness"].get("what", "")).startswith(("corpus input", "REGRESSION")):
            continue
        cands.append((f, data))
    out_dir = os.path.join(VERIF, "corpus", prop)
    os.makedirs(out_dir, exist_ok=True)
    for f, data in cands[:3]:
        tmp = f + ".cand.json"
        data = {"property": prop, "from_seeded_change": name, "witness": data["witness"]}
        json.dump(data, open(tmp, "w"), indent=1, sort_keys=True)
        r = subprocess.run([os.path.join(VERIF, "check"), prop, "--replay", tmp], capture_output=True, text=True, cwd=VERIF,
                           env={**os.environ, "VERIF_OUT": os.path.join(d, "eval", "clean")})
        if "does not fail" in r.stdout:
            dst = os.path.join(out_dir, f"{name}-{len(kept) + 1}.json")
            shutil.copy(tmp, dst)
            kept.append(dst)
    shutil.rmtree(os.path.join(d, "eval"), ignore_errors=True)
    return name, line, len(cands), len(kept)


def main():
    args = sys.argv[1:]
    j = 3
    if args and args[0] == "-j":
        j, args = int(args[1]), args[2:]
    with concurrent.futures.ThreadPoolExecutor(j) as ex:
        for name, line, nc, nk in ex.map(one, args):
            print(name, f"candidates={nc} kept={nk}", "|", line, flush=True)


if __name__ == "__main__":
    main()
