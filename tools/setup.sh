#!/bin/sh
# setup_cmd: offline build of the Coq development that does not depend on /repo.
set -e
cd "$(dirname "$0")/.."
# forbidden constructs: nothing may be assumed, no checks switched off
if grep -rnE '\b(Admitted|admit|Axiom|Axioms|Parameter|Parameters|Conjecture|Admit Obligations)\b|Unset Guard|Unset Positivity|Unset Universe|bypass_check|type-in-type|impredicative-set' coq/theories --include='*.v' | grep -v '^\S*:[0-9]*:\s*(\*' ; then
  echo "setup: forbidden construct found in coq/theories" >&2
  exit 1
fi
cd coq
coq_makefile -f _CoqProject -o Makefile >/dev/null
timeout 3000 make -j16
