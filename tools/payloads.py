"""payloads.py — payload generation from canboat.json for the codec properties (C01, C02, C09, C15, C17, C18).

Everything here is derived from the DATABASE (not from pgns.py), with exact rational arithmetic for ranges."""
from __future__ import annotations
import json
import math
import os
from fractions import Fraction
from decimal import Decimal

import vlib

NUMERIC = ("NUMBER", "MMSI", "PGN", "DURATION", "TIME", "DATE")
UNSUPPORTED = ("FIELD_INDEX", "VARIABLE", "ISO_NAME", "DECIMAL", "DYNAMIC_FIELD_KEY", "DYNAMIC_FIELD_VALUE",
               "DYNAMIC_FIELD_LENGTH", "KEY_VALUE", "FIELDTYPE_LOOKUP")

_DB = None


def db():
    global _DB
    if _DB is None:
        with open(os.path.join(vlib.REPO, "canboat.json")) as fh:
            _DB = json.load(fh, parse_float=Decimal)
    return _DB


def definitions():
    return db()["PGNs"]


def groups():
    g = {}
    for d in definitions():
        g.setdefault(d["PGN"], []).append(d)
    return g


def func_suffix(d, grp=None):
    """name suffix the template gives the per-definition functions"""
    grp = grp or groups()[d["PGN"]]
    multi = len(grp) > 1 and any("Match" in f for x in grp for f in x["Fields"])
    return f"{d['PGN']}_{d['Id']}" if multi else str(d["PGN"])


def frac(x) -> Fraction:
    return Fraction(x) if not isinstance(x, Decimal) else Fraction(x)


def supported(d) -> bool:
    return all(f["FieldType"] not in UNSUPPORTED for f in d["Fields"])


def fixed_layout(d) -> bool:
    return all("BitOffset" in f and "BitLength" in f for f in d["Fields"])


def sentinel(f):
    """raw bit pattern that decode_number reports as None (None if the type has no such pattern)"""
    n = f.get("BitLength")
    if n is None or f["FieldType"] not in NUMERIC:
        return None
    if n <= 3 or not f.get("Signed", False):
        return (1 << n) - 1
    return (1 << (n - 1)) - 1


def raw_range(f):
    """(lo, hi) of raw (two's complement decoded) integers whose scaled value lies in the database range,
    intersected with what the bit length can carry, the not-available pattern excluded. Exact arithmetic."""
    n = f["BitLength"]
    signed = f.get("Signed", False)
    lo_rep, hi_rep = (-(1 << (n - 1)), (1 << (n - 1)) - 1) if signed else (0, (1 << n) - 1)
    res = frac(f.get("Resolution", 1))
    lo, hi = lo_rep, hi_rep
    if "RangeMin" in f and res > 0:
        lo = max(lo, math.ceil(frac(f["RangeMin"]) / res))
    if "RangeMax" in f and res > 0:
        hi = min(hi, math.floor(frac(f["RangeMax"]) / res))
    s = sentinel(f)
    if s is not None:
        sv = s - (1 << n) if signed and s >> (n - 1) else s
        if hi == sv:
            hi -= 1
        if lo == sv:
            lo += 1
    return lo, hi


def to_bits(f, v: int) -> int:
    return v & ((1 << f["BitLength"]) - 1)


def raw_classes(f, rng) -> dict:
    """named raw bit patterns for one fixed-position field"""
    n = f["BitLength"]
    t = f["FieldType"]
    mask = (1 << n) - 1
    out = {"zero": 0, "ones": mask, "one": 1 & mask, "random": rng.getrandbits(n)}
    if t in NUMERIC:
        lo, hi = raw_range(f)
        if lo <= hi:
            out.update({"min": to_bits(f, lo), "max": to_bits(f, hi), "max-1": to_bits(f, max(lo, hi - 1)),
                        "above": to_bits(f, hi + 1), "below": to_bits(f, lo - 1)})
        s = sentinel(f)
        if s is not None:
            out.update({"na": s, "na-1": (s - 1) & mask, "na-2": (s - 2) & mask})
        if f.get("Signed"):
            out.update({"sign": 1 << (n - 1), "sign-1": ((1 << (n - 1)) - 1) & mask, "minus1": mask})
    elif t == "FLOAT":
        import struct
        for nm, x in (("f1", 1.0), ("fneg", -2.5), ("fbig", 3.0e38), ("fsmall", 1e-40)):
            out[nm] = struct.unpack("<I", struct.pack("<f", x))[0]
        out["nan"] = 0x7FC00000
        out["inf"] = 0x7F800000
    elif t == "STRING_FIX":
        nb = n // 8
        txt = bytes(rng.choice(b"ABCdef 123-_") for _ in range(rng.randrange(nb + 1)))
        pad = rng.choice([b"\x00", b"\xff", b"@", b" "])
        out["text"] = int.from_bytes((txt + pad * nb)[:nb], "little")
    return out


def in_range_raw(f, rng) -> int:
    """a raw bit pattern the decoder accepts for this field (database range, exact)"""
    n = f["BitLength"]
    t = f["FieldType"]
    if t in NUMERIC:
        lo, hi = raw_range(f)
        if lo > hi:
            return sentinel(f) if sentinel(f) is not None else 0
        k = rng.random()
        if k < 0.1:
            v = lo
        elif k < 0.2:
            v = hi
        elif k < 0.3 and sentinel(f) is not None:
            return sentinel(f)
        else:
            v = rng.randint(lo, hi)
            if rng.random() < 0.5:     # stay well inside (float edge effects are a separate class)
                v = rng.randint(lo + (hi - lo) // 4, hi - (hi - lo) // 4)
        return to_bits(f, v)
    if t == "FLOAT":
        import struct
        return struct.unpack("<I", struct.pack("<f", rng.uniform(-1000, 1000)))[0]
    if t == "STRING_FIX":
        return raw_classes(f, rng)["text"]
    return rng.getrandbits(n)


def lau(rng, maxlen=12) -> bytes:
    txt = bytes(rng.choice(b"ABCdef 123") for _ in range(rng.randrange(maxlen)))
    return bytes([len(txt) + 2, 1]) + txt


def lz(rng, maxlen=12) -> bytes:
    txt = bytes(rng.choice(b"ABCdef 123") for _ in range(rng.randrange(maxlen)))
    return bytes([len(txt)]) + txt + b"\x00"


def compose(d, rng, override: dict | None = None, mode="inrange") -> int:
    """payload integer (little-endian bit order) for definition d. override: field index -> raw bits.
    Variable-position fields are laid out at the running offset as the generated decoder walks them."""
    p = 0
    off = 0
    override = override or {}
    for i, f in enumerate(d["Fields"]):
        if "BitOffset" in f:
            off = f["BitOffset"]
        t = f["FieldType"]
        if "BitLength" in f:
            n = f["BitLength"]
            if i in override:
                raw = override[i] & ((1 << n) - 1)
            elif "Match" in f:
                raw = f["Match"]
            elif mode == "zero":
                raw = 0
            elif mode == "ones":
                raw = (1 << n) - 1
            elif mode == "random":
                raw = rng.getrandbits(n)
            else:
                raw = in_range_raw(f, rng)
            p |= raw << off
            off += n
        elif t == "STRING_LAU":
            b = lau(rng)
            p |= int.from_bytes(b, "little") << off
            off += 8 * len(b)
        elif t == "STRING_LZ":
            b = lz(rng)
            p |= int.from_bytes(b, "little") << off
            off += 8 * len(b)
        elif t == "BINARY":
            # variable-length binary: fill what the length field announces (best effort: 16 bits)
            p |= rng.getrandbits(16) << off
            off += 16
        else:
            break
    return p


def payload_set(d, rng, per_field_classes=True, n_random=3):
    """[(label, payload)] — the classes of the C01 quantifier text for one definition"""
    out = [("all-zero", compose(d, rng, mode="zero")), ("all-ones", compose(d, rng, mode="ones"))]
    for k in range(n_random):
        out.append((f"inrange-{k}", compose(d, rng)))
    out.append(("random", compose(d, rng, mode="random")))
    if per_field_classes:
        for i, f in enumerate(d["Fields"]):
            if "BitOffset" not in f or "BitLength" not in f or "Match" in f:
                continue
            for nm, raw in raw_classes(f, rng).items():
                out.append((f"f{i}:{nm}", compose(d, rng, {i: raw})))
    return out


# ------------------------------------------------------------------ variable-layout definitions (C01, end to end)
# payloads for what the fixed-layout classes never reach: both STRING_LAU encodings, byte-order marks, zero-length strings,
# length bytes below 2 or pointing past the end of the payload, payloads that end before a field, BitLengthField values
# 0 / not a multiple of 8 / not available, INDIRECT_LOOKUP pairs inside and outside the table.
LAU_KINDS = ("ascii", "utf16", "utf16bom", "utf16be", "utf16odd", "empty1", "empty0", "n0", "n1", "past", "past0",
             "enc2", "nul", "invalid", "absent")
LZ_KINDS = ("text", "zero", "past", "noterm", "invalid", "absent")
U16_TEXTS = ["wórld", "µΩ €", "Zürich", "A", "\ufeffB", "\u4e2d\u6587", "\x00x"]


def is_var_layout(d) -> bool:
    return any("BitOffset" not in f or "BitLength" not in f or f["FieldType"] in ("INDIRECT_LOOKUP", "STRING_LZ", "STRING_LAU")
               for f in d["Fields"])


def lau_bytes(kind, rng):
    """bytes of one STRING_LAU field; None = the payload ends here"""
    t = bytes(rng.choice(b"ABCdef 123") for _ in range(rng.randrange(1, 9)))
    u = rng.choice(U16_TEXTS)
    if kind == "ascii":
        return bytes([len(t) + 2, 1]) + t
    if kind == "utf16":
        e = u.encode("utf-16-le")
        return bytes([len(e) + 2, 0]) + e
    if kind == "utf16bom":
        e = b"\xff\xfe" + u.encode("utf-16-le")
        return bytes([len(e) + 2, 0]) + e
    if kind == "utf16be":
        e = b"\xfe\xff" + u.encode("utf-16-be")
        return bytes([len(e) + 2, 0]) + e
    if kind == "utf16odd":
        e = u.encode("utf-16-le") + b"Q"
        return bytes([len(e) + 2, 0]) + e
    if kind == "empty1":
        return bytes([2, 1])
    if kind == "empty0":
        return bytes([2, 0])
    if kind == "n0":
        return bytes([0, 1]) + t
    if kind == "n1":
        return bytes([1, rng.choice([0, 1])]) + t
    if kind == "past":      # announces more bytes than follow
        return bytes([len(t) + 2 + rng.randrange(1, 40), 1]) + t
    if kind == "past0":
        e = u.encode("utf-16-le")
        return bytes([len(e) + 2 + rng.randrange(1, 40), 0]) + e
    if kind == "enc2":
        return bytes([len(t) + 2, rng.choice([2, 7, 255])]) + t
    if kind == "nul":
        e = t[:2] + b"\x00" * rng.randrange(1, 4)
        return bytes([len(e) + 2, 1]) + e
    if kind == "invalid":   # bytes that are not UTF-8 on their own (dropped by errors='ignore')
        e = bytes(rng.choice(b"AB\x80\xbf\xc0\xc1\xf5\xff") for _ in range(rng.randrange(1, 8)))
        return bytes([len(e) + 2, 1]) + e
    return None


def lz_bytes(kind, rng):
    t = bytes(rng.choice(b"ABCdef 123") for _ in range(rng.randrange(1, 9)))
    if kind == "text":
        return bytes([len(t)]) + t + b"\x00"
    if kind == "zero":
        return b"\x00\x00"
    if kind == "past":
        return bytes([len(t) + rng.randrange(1, 40)]) + t
    if kind == "noterm":
        return bytes([len(t)]) + t + b"XY"
    if kind == "invalid":
        e = bytes(rng.choice(b"AB\x80\xbf\xc0\xf5\xff") for _ in range(rng.randrange(1, 8)))
        return bytes([len(e)]) + e + b"\x00"
    return None


def compose_var(d, rng, kinds=None, blf=None, cut=None, mode="inrange", raw=None):
    """payload for a variable-layout definition, laid out consecutively as canboat prescribes.
    kinds: field index -> string kind; blf: value for the field a BitLengthField names; cut: the payload ends before
    field number cut; raw: field index -> raw bits"""
    kinds, raw = kinds or {}, raw or {}
    p, off = 0, 0
    blf_idx = {f["BitLengthField"] - 1: i for i, f in enumerate(d["Fields"]) if "BitLengthField" in f}
    announced = {}
    for i, f in enumerate(d["Fields"]):
        if cut is not None and i >= cut:
            break
        if "BitOffset" in f:
            off = f["BitOffset"]
        t = f["FieldType"]
        if t == "STRING_LAU" or (t == "STRING_LZ" and "BitLength" not in f) or (t == "STRING_LZ" and i in kinds):
            b = (lau_bytes if t == "STRING_LAU" else lz_bytes)(kinds.get(i, "ascii" if t == "STRING_LAU" else "text"), rng)
            if b is None:
                break
            p |= int.from_bytes(b, "little") << off
            off += 8 * len(b) if "BitLength" not in f or t == "STRING_LAU" else f["BitLength"]
        elif "BitLength" in f:
            n = f["BitLength"]
            if i in raw:
                v = raw[i] & ((1 << n) - 1)
            elif i in blf_idx and blf is not None:
                v = blf & ((1 << n) - 1)
                announced[blf_idx[i]] = v
            elif "Match" in f:
                v = f["Match"]
            elif t in UNSUPPORTED or t in ("INDIRECT_LOOKUP", "BINARY", "BITLOOKUP", "RESERVED", "SPARE", "LOOKUP"):
                v = rng.getrandbits(n)
            elif mode == "random":
                v = rng.getrandbits(n)
            else:
                v = in_range_raw(f, rng)
                if i in blf_idx:
                    announced[blf_idx[i]] = v
            p |= v << off
            off += n
        elif t == "BINARY":
            n = announced.get(i, 16)
            n = n if n < 4000 else 64
            p |= rng.getrandbits(n + rng.choice([0, 0, 3, 8])) << off     # sometimes more bits than announced follow
            off += n
        else:
            break
    return p


def var_layout_payloads(d, rng, n_indirect=10, n_mixed=2):
    out = []
    fs = d["Fields"]
    lau = [i for i, f in enumerate(fs) if f["FieldType"] == "STRING_LAU"]
    lz = [i for i, f in enumerate(fs) if f["FieldType"] == "STRING_LZ"]
    blf = [i for i, f in enumerate(fs) if "BitLengthField" in f]
    ind = [i for i, f in enumerate(fs) if f["FieldType"] == "INDIRECT_LOOKUP"]
    if not supported(d):
        return [("unsupported", compose_var(d, rng)), ("unsupported-zero", 0)]
    for k in LAU_KINDS if lau else ():
        tgt = rng.choice(lau)
        kinds = {i: (k if i == tgt else rng.choice(("ascii", "utf16", "empty1"))) for i in lau}
        out.append((f"lau:{k}@{tgt}", compose_var(d, rng, kinds)))
    if len(lau) > 1:
        for k in ("utf16", "empty0", "n0", "past"):
            out.append((f"lau-all:{k}", compose_var(d, rng, {i: k for i in lau})))
    for k in LZ_KINDS if lz else ():
        out.append((f"lz:{k}", compose_var(d, rng, {i: k for i in lz})))
    for i in blf:
        lf = fs[fs[i]["BitLengthField"] - 1]
        top = (1 << lf["BitLength"]) - 1
        for v in (0, 1, 7, 8, 9, 13, 16, 31, 33, 64, top, top - 1, top - 2, rng.randrange(0, 200)):
            out.append((f"blf:{v}", compose_var(d, rng, blf=v)))
    for i in ind:
        import json as _json
        tbl = next(t for t in db()["LookupIndirectEnumerations"] if t["Name"] == fs[i]["LookupIndirectEnumeration"])
        ref = fs[i]["LookupIndirectEnumerationFieldOrder"] - 1
        pairs = [(e["Value1"], e["Value2"]) for e in tbl["EnumValues"]]
        for _ in range(n_indirect):
            v1, v2 = rng.choice(pairs) if rng.random() < 0.7 else (rng.getrandbits(7), rng.getrandbits(8))
            out.append((f"indirect:{v1}_{v2}", compose_var(d, rng, raw={ref: v1, i: v2})))
    for c in sorted({rng.randrange(1, len(fs) + 1) for _ in range(3)}):
        out.append((f"cut:{c}", compose_var(d, rng, cut=c)))
    out.append(("zero", 0))
    out.append(("random", compose_var(d, rng, {i: rng.choice(LAU_KINDS) for i in lau}, mode="random")))
    for _ in range(n_mixed):
        out.append(("mixed", compose_var(d, rng, {i: rng.choice(LAU_KINDS[:-1]) for i in lau} | {i: rng.choice(LZ_KINDS[:-1]) for i in lz})))
    return out


