"""vloop.py — virtual-time event loop, fake transports and the traced session runner for the
gateway clients (DESIGN §3.3 last paragraphs, Appendix E; used by props/c13.py and props/c14.py).

Three layers:

 1. `VirtualLoop`: a SelectorEventLoop whose selector never blocks; "waiting" advances a fake clock.
 2. `Gateway`: the simulated peer. Replaces `asyncio.open_connection` and
    `serial_asyncio.open_serial_connection` *in this process*; every connection gets a REAL
    `asyncio.StreamReader` (so readexactly / readline / read are CPython's) and a scripted `FakeWriter`.
 3. `run_session(spec)`: builds one of the four real client classes, wraps
    connect / close / send / _connect_impl / _update_state / _receive_impl / _receive_loop / _process_queue
    from outside, drives a script (user calls, peer behaviour, fault / close() injection at a label
    position), and returns (a) the labelled trace for the Coq acceptor `lts_accepts` (one label per atomic
    block: one `send`/`throw` of a task's coroutine = one event-loop step of that task; the receive loop and the
    queue consumer are split further at every `_receive_impl` / receive-callback completion) and (b) the
    raw observations the property oracles use (status trace in virtual seconds, attempt times, heartbeat
    count, state after close, writers, pending tasks).

Every real-client run happens in a SUBPROCESS (`python vloop.py --batch`, specs on stdin, one JSON line per
run on stdout) with a wall-clock watchdog thread per run: a client that spins without yielding becomes the
observation {"spin": true, ...} and the parent (`run_batch`) restarts the batch after it.
"""
from __future__ import annotations
import asyncio
import collections.abc
import json
import os
import selectors
import subprocess
import sys
import threading
import time as _time

# --------------------------------------------------------------------------- 1. virtual loop

class _NoBlockSelector(selectors.BaseSelector):
    """Selector with no real fds: 'waiting' advances the owning loop's virtual clock."""
    def __init__(self):
        self.loop = None
        self._map = {}

    def register(self, fileobj, events, data=None):
        fd = fileobj if isinstance(fileobj, int) else fileobj.fileno()
        key = selectors.SelectorKey(fileobj, fd, events, data)
        self._map[fd] = key
        return key

    def unregister(self, fileobj):
        fd = fileobj if isinstance(fileobj, int) else fileobj.fileno()
        return self._map.pop(fd)

    def select(self, timeout=None):
        if timeout is None:
            raise RuntimeError("virtual loop would block forever (deadlock): no ready handles and no timers")
        if timeout > 0:
            self.loop._vt += timeout
        return []

    def get_map(self):
        return self._map

    def close(self):
        pass


class VirtualLoop(asyncio.SelectorEventLoop):
    def __init__(self):
        sel = _NoBlockSelector()
        super().__init__(sel)
        sel.loop = self
        self._vt = 0.0

    def time(self):
        return self._vt


_sleep = asyncio.sleep            # the real asyncio.sleep, for harness-side waiting (never logged)

# --------------------------------------------------------------------------- 2. fake peer

class FakeWriter:
    """Scripted stand-in for asyncio.StreamWriter. `mode` is consulted on every write/drain:
    ok | susp (drain suspends once) | fail (write raises) | drainfail (drain raises) | suspfail."""
    def __init__(self, gw, wid, reader):
        self.gw, self.wid, self.reader = gw, wid, reader
        self.closed = False
        self.close_calls = 0
        self.written = []
        self.mode = "ok"

    def write(self, data):
        self.gw.tr.ev("w.write", self.wid, len(data))
        if self.mode == "fail" or self.closed:
            self.gw.wfault(self, "write")
            raise ConnectionResetError("fake: write on a broken connection")
        self.written.append(bytes(data))

    async def drain(self):
        m = self.mode
        if m in ("susp", "suspfail"):
            self.gw.tr.ev("w.drain.susp", self.wid)
            await _sleep(0.001)
        if m in ("drainfail", "suspfail") or self.mode in ("drainfail", "suspfail"):
            self.gw.wfault(self, "drain")
            raise ConnectionResetError("fake: drain failed")

    def close(self):
        self.close_calls += 1
        self.gw.tr.ev("w.close", self.wid)
        if not self.closed:
            self.closed = True
            self.gw.on_writer_closed(self)

    def is_closing(self):
        return self.closed

    async def wait_closed(self):
        # StreamWriter.wait_closed() waits for connection_lost, which the transport schedules with call_soon when
        # close() is called: the caller is suspended for (at least) one loop iteration
        await _sleep(0)
        # ... and re-raises the error the connection was lost with (reset on read, failed write); a clean end of stream
        # or a plain close() returns normally
        exc = self.reader.exception() if self.reader is not None else None
        if exc is not None:
            raise exc
        if self.mode in ("fail", "drainfail", "suspfail"):
            raise ConnectionResetError("fake: connection was lost with a write error")
        return None

    def get_extra_info(self, key, default=None):
        return default


class Gateway:
    """conns[i] describes the i-th connection attempt: {"refuse": bool, "delay": virtual seconds the attempt is
    pending, "drain": mode of the new writer}. Attempts beyond the list are accepted with delay 0."""
    def __init__(self, tr, conns, client="ebyte", exc_rot=0):
        self.tr, self.conns = tr, list(conns)
        self.client, self.exc_rot, self.nrefused = client, int(exc_rot), 0
        self.attempt_times = []
        self.refuse_next = 0
        self.writers = []
        self.readers = []
        self.wfaults = []           # [virtual time, wid, "write"|"drain", client state, writer is the client's current one]

    def wfault(self, w, what):
        c = self.tr.client
        self.wfaults.append([asyncio.get_running_loop().time(), w.wid, what,
                             c._state.value if c is not None else None, bool(c is not None and c.writer is w)])

    def _spec(self):
        i = len(self.attempt_times)
        return self.conns[i] if i < len(self.conns) else {}

    async def _open(self, limit=None):
        sp = self._spec()
        loop = asyncio.get_running_loop()
        self.attempt_times.append(loop.time())
        self.tr.ev("open", len(self.attempt_times))
        refuse = bool(sp.get("refuse"))
        if self.refuse_next > 0:
            self.refuse_next -= 1
            refuse = True
        await _sleep(float(sp.get("delay", 0.0)))       # always a real suspension (sleep(0) yields once)
        if refuse:
            raise self._failure()
        r = asyncio.StreamReader(limit=limit) if limit else asyncio.StreamReader()     # the limit the client asked for, if any
        w = FakeWriter(self, len(self.writers), r)
        w.mode = sp.get("drain", "ok")
        self.writers.append(w)
        self.readers.append(r)
        self.tr.ev("opened", w.wid)
        return r, w

    def _failure(self):
        """a failing connection attempt raises one of the exception classes a real open_connection /
        open_serial_connection raises (rotating; `exc_rot` of the spec chooses where the rotation starts)"""
        import socket
        kinds = [lambda: ConnectionRefusedError(111, "fake: connection refused"),
                 lambda: OSError(113, "fake: no route to host"),
                 lambda: socket.gaierror(-2, "fake: name or service not known"),
                 lambda: TimeoutError("fake: connection attempt timed out"),
                 lambda: RuntimeError("fake: unexpected failure inside the transport"),
                 lambda: ConnectionResetError(104, "fake: reset during the handshake"),
                 lambda: OSError(101, "fake: network is unreachable")]
        if self.client == "waveshare":
            import serial
            kinds.insert(1, lambda: serial.SerialException("fake: could not open port /dev/fake: No such file or directory"))
        e = kinds[(self.exc_rot + self.nrefused) % len(kinds)]()
        self.nrefused += 1
        self.tr.ev("refused", type(e).__name__)
        return e

    async def open_connection(self, host=None, port=None, **kw):
        return await self._open(limit=kw.get("limit"))

    async def open_serial_connection(self, **kw):
        return await self._open()

    def on_writer_closed(self, w):
        # a closed transport reports connection_lost -> feed_eof on its reader, one loop iteration later
        def lost():
            r = w.reader
            if not r.at_eof() and r.exception() is None and not r._eof:
                self.tr.env("eof", r)
        asyncio.get_running_loop().call_soon(lost)


# --------------------------------------------------------------------------- 3. tracing

class Traced(collections.abc.Coroutine):
    """Wraps the top-level coroutine of a task: one send()/throw() = one step of the task = one atomic block."""
    def __init__(self, tr, coro, kind):
        self.tr, self.coro, self.kind = tr, coro, kind
        self.tid = tr.new_tid(kind)
        self.finished = False
        self.started = False
        if kind == "connect":
            tr.pc += 1

    def _step(self, how, fn, *a):
        tr = self.tr
        if not self.started:
            self.started = True
            if self.kind == "connect":
                tr.pc -= 1
        tr.begin(self, how)
        try:
            r = fn(*a)
        except StopIteration:
            self.finished = True
            tr.end(self, "ret")
            raise
        except BaseException as e:  # noqa: BLE001
            self.finished = True
            tr.end(self, "exc:" + type(e).__name__)
            raise
        tr.end(self, "susp")
        return r

    def send(self, v):
        return self._step("send", self.coro.send, v)

    def throw(self, *a):
        return self._step("throw:" + getattr(a[0], "__name__", type(a[0]).__name__), self.coro.throw, *a)

    def close(self):
        return self.coro.close()

    def __await__(self):
        return self

    def __iter__(self):
        return self

    def __next__(self):
        return self.send(None)


MAX_BLOCKS = 6000            # a scripted session of the unchanged clients has a few hundred event-loop steps
MAX_BLOCK_EVENTS = 20000


class SessionOverflow(BaseException):
    """raised out of the instrumentation to abort a session that produces an unbounded number of steps"""


class Tracer:
    def __init__(self):
        self.blocks = []          # finished blocks
        self.cur = None           # block being executed
        self.ntid = 0
        self.client = None
        self.tasks = {}           # id(Traced) -> asyncio.Task (for the snapshot of 'own task finishing')
        self.rx_tasks = []        # every asyncio.Task created for a _receive_loop coroutine
        self.on_label = None      # hook(n_labels) called after every block / env label
        self.nlabels = 0
        self.loop = None
        self.max_rx = 0
        self.pc = 0               # connect() coroutines created and not yet started
        self.fin_task = None      # the task whose final step is being executed (done() is not yet true)
        self.states = []          # client._state after every block (consecutive duplicates removed)

    def new_tid(self, kind):
        self.ntid += 1
        if self.cur is not None:
            self.cur["ev"].append(["spawn", kind])
        return self.ntid

    def ev(self, *e):
        if self.cur is not None:
            if len(self.cur["ev"]) >= MAX_BLOCK_EVENTS:      # a runaway block: keep the session's memory bounded
                self.cur["overflow"] = True
                return
            self.cur["ev"].append(list(e))

    def snap(self, finishing=None):
        c = self.client
        if c is None:
            return None
        if finishing:
            self.fin_task = asyncio.current_task(self.loop)
        fin = self.fin_task

        def alive(t):
            return t is not None and not t.done() and t is not fin
        w = c.writer
        rd = c.reader
        return {"st": c._state.value, "lock": c.lock.locked(), "rx": alive(c._receive_task),
                "cons": alive(c._process_queue_task), "wid": (w.wid if w is not None else -1),
                "wclosed": bool(w.closed) if w is not None else False, "q": c.queue.qsize(), "pc": self.pc,
                "buf": len(rd._buffer) if rd is not None else 0}

    def mark(self, *e):
        """an event that also closes a micro-block: carries a snapshot"""
        if self.cur is not None:
            self.cur["ev"].append(list(e) + [self.snap()])

    def begin(self, t, how):
        self.fin_task = None
        is_cur_rx = self.client is not None and self.tasks.get(id(t)) is self.client._receive_task
        self.cur = {"kind": t.kind, "tid": t.tid, "how": how, "ev": [], "cur_rx": is_cur_rx,
                    "vt": self.loop.time()}

    def end(self, t, outcome):
        b = self.cur
        self.cur = None
        b["end"] = outcome
        b["snap"] = self.snap(finishing=(outcome != "susp"))
        self.blocks.append(b)
        self._count(b)
        if len(self.blocks) > MAX_BLOCKS:
            raise SessionOverflow(f"more than {MAX_BLOCKS} event-loop steps in one scripted session (virtual time "
                                  f"{self.loop.time():.1f} s): the client does not settle")

    def env(self, what, reader, n=0, data=None):
        """peer behaviour on the client's CURRENT reader (others are ignored: their connection is dead)"""
        c = self.client
        if c is None or reader is None or reader is not c.reader:
            return False
        if what == "feed":
            if reader._eof or reader.exception() is not None:
                return False
            reader.feed_data(data)
        elif what == "eof":
            if reader._eof:
                return False
            reader.feed_eof()
        elif what == "reset":
            # as a real transport does it: connection_lost(exc) is always scheduled with call_soon, so it reaches the
            # reader after the callbacks that are already queued (a reader woken by data in this same loop turn runs
            # first). Delivered in the same turn as a feed_data, StreamReader.set_exception would find no waiter and a
            # pending readexactly() would never see the exception — a situation asyncio's transports cannot produce.
            if reader.exception() is not None or getattr(reader, "_nv_reset_pending", False):
                return False
            reader._nv_reset_pending = True

            def deliver():
                if self.client is None or reader is not self.client.reader or reader.exception() is not None:
                    return
                reader.set_exception(self._read_fault())
                b = {"kind": "env", "what": "reset", "n": 0, "snap": self.snap(), "vt": self.loop.time(), "ev": [], "end": "env"}
                self.blocks.append(b)
                self._count(b)
            # two hops: this may run inside a task step that is just suspending on the reader (its wake-up is only
            # registered when the step returns), and a transport reports the loss in a later loop iteration than data
            self.loop.call_soon(lambda: self.loop.call_soon(deliver))
            return True
        b = {"kind": "env", "what": what, "n": n, "snap": self.snap(), "vt": self.loop.time(), "ev": [], "end": "env"}
        self.blocks.append(b)
        self._count(b)
        return True

    def _read_fault(self):
        """the exception a failing read raises: one of the classes a real transport reports (rotating with the run and the
        number of faults so far); a serial port reports pyserial's SerialException or an OSError"""
        gw = RUN_STATE.get("gw")
        rot = (getattr(gw, "exc_rot", 0) if gw else 0) + getattr(self, "_nfaults", 0)
        self._nfaults = getattr(self, "_nfaults", 0) + 1
        kinds = [lambda: ConnectionResetError(104, "fake: connection reset by peer"),
                 lambda: TimeoutError("fake: read timed out"),
                 lambda: OSError(113, "fake: no route to host"),
                 lambda: BrokenPipeError(32, "fake: broken pipe"),
                 lambda: ConnectionAbortedError(103, "fake: software caused connection abort")]
        if gw is not None and getattr(gw, "client", None) == "waveshare":
            import serial
            kinds = [lambda: serial.SerialException("fake: device reports readiness to read but returned no data "
                                                    "(device disconnected or multiple access on port?)"),
                     lambda: OSError(5, "fake: Input/output error")] + kinds[:2]
        return kinds[rot % len(kinds)]()

    def user(self, what):
        b = {"kind": "user", "what": what, "snap": self.snap(), "vt": self.loop.time(), "ev": [], "end": "user"}
        self.blocks.append(b)
        self._count(b)

    def _count(self, b):
        self.nlabels += 1
        live = 0
        for t in self.rx_tasks:
            if not t.done() and not t.cancelling():
                live += 1
        fin = b.get("end") in ("ret",) or str(b.get("end", "")).startswith("exc:")
        if fin and b.get("kind") == "_receive_loop":
            live -= 1 if b.get("how", "") != "throw:CancelledError" else 0
        self.max_rx = max(self.max_rx, live)
        for e in b["ev"] + [[b["snap"]]]:
            sn = e[-1]
            if isinstance(sn, dict) and "st" in sn and (not self.states or self.states[-1] != sn["st"]):
                self.states.append(sn["st"])
        if self.on_label is not None:
            self.on_label(self.nlabels)


def _wrap_inner(tr, cls, name):
    orig = cls.__dict__[name]

    async def w(self, *a, **k):
        arg = [getattr(a[0], "value", None)] if (name == "_update_state" and a) else []
        tr.ev("enter", name, *arg)
        try:
            r = await orig(self, *a, **k)
        except BaseException as e:  # noqa: BLE001
            if name == "_receive_impl":
                tr.mark("exc", name, type(e).__name__)
            else:
                tr.ev("exc", name, type(e).__name__)
            raise
        if name == "_receive_impl":
            tr.mark("exit", name)
        else:
            tr.ev("exit", name)
        return r
    w.__name__ = name
    setattr(cls, name, w)
    return orig


def _wrap_top(tr, cls, name):
    orig = cls.__dict__[name]

    async def inner(self, *a, **k):
        tr.mark("enter", name)
        try:
            r = await orig(self, *a, **k)
        except BaseException as e:  # noqa: BLE001
            tr.ev("exc", name, type(e).__name__)
            raise
        tr.ev("exit", name)
        return r

    def w(self, *a, **k):
        if name == "send" and tr.cur is not None and tr.cur.get("kind") == "_seed_network_map":
            # `await self.send(msg)` inside the seeding task: not a task of its own, its events belong to the seeding task's steps
            return inner(self, *a, **k)
        return Traced(tr, inner(self, *a, **k), name)
    w.__name__ = name
    setattr(cls, name, w)
    return orig


CLIENTS = {"ebyte": "EByteNmea2000Gateway", "actisense": "ActisenseNmea2000Gateway",
           "yd": "YachtDevicesNmea2000Gateway", "waveshare": "WaveShareNmea2000Gateway"}
KIND = {"ebyte": "KEByte", "actisense": "KText", "yd": "KText", "waveshare": "KSerial"}


def install(tr, gw):
    """Patch the library and asyncio from outside. Returns an undo function."""
    import serial_asyncio
    import nmea2000.ioclient as io
    undo = []

    def setp(obj, name, val):
        old = obj.__dict__[name] if isinstance(obj, type) else getattr(obj, name)
        undo.append((obj, name, old))
        setattr(obj, name, val)

    setp(asyncio, "open_connection", gw.open_connection)
    setp(serial_asyncio, "open_serial_connection", gw.open_serial_connection)

    async def logged_sleep(delay, result=None):
        tr.ev("sleep", delay)
        r = await _sleep(delay, result)
        tr.ev("slept", delay)
        return r
    setp(asyncio, "sleep", logged_sleep)

    base = io.AsyncIOClient
    for name in ("connect", "close", "send", "_receive_loop", "_process_queue", "_seed_network_map"):
        old = _wrap_top(tr, base, name)
        undo.append((base, name, old))
        if name == "close":
            tr.orig_close = old       # the unwrapped close(): what a callback calls when it closes the client from inside
        if name == "send":
            tr.orig_send = old        # likewise for a callback that sends (a traced coroutine nested in another task's step
            #                           is not something the tracer can account for)
    old = _wrap_inner(tr, base, "_update_state")
    undo.append((base, "_update_state", old))
    for cls in (io.EByteNmea2000Gateway, io.TextNmea2000Gateway, io.WaveShareNmea2000Gateway):
        for name in ("_connect_impl", "_receive_impl"):
            old = _wrap_inner(tr, cls, name)
            undo.append((cls, name, old))

    def un():
        for obj, name, old in reversed(undo):
            setattr(obj, name, old)
    return un


# --------------------------------------------------------------------------- frames for the four wire formats

_FRAME_CACHE = {}


def frame(client: str, i: int) -> bytes:
    """a valid single-frame message (PGN 127250, heading varies with i) in the client's wire format"""
    key = (client, i % 7)
    if key in _FRAME_CACHE:
        return _FRAME_CACHE[key]
    from nmea2000.decoder import NMEA2000Decoder
    from nmea2000.encoder import NMEA2000Encoder
    dec, enc = NMEA2000Decoder(), NMEA2000Encoder()
    hx = "%02x" % (0x10 + (i % 7))
    m = dec.decode_basic_string(f"2020-01-01-00:00:00.000,2,127250,1,255,8,01,{hx},27,ff,7f,ff,7f,fd", True)
    if client == "ebyte":
        b = enc.encode_ebyte(m)[0]
        b = b + bytes(13 - len(b)) if len(b) < 13 else b
    elif client == "waveshare":
        b = enc.encode_usb(m)[0]
    elif client == "yd":
        b = b"00:00:00.000 R " + enc.encode_yacht_devices(m)[0].rstrip(b"\r\n") + b"\r\n"
    else:
        s = enc.encode_actisense(m)
        s = s if isinstance(s, str) else s.decode()
        s = s.strip()
        if not s.startswith("A"):
            s = "A000001.000 " + s
        b = s.encode() + b"\n"
    _FRAME_CACHE[key] = b
    return b


# CAN payloads every PGN decoder rejects by RAISING (value above the maximum, unsupported ISO / mixed PGN, truncated
# fast-packet frame): the wire frame around them is perfectly valid (marker, length, checksum, syntax)
BAD_PAYLOADS = [(126992, 3, bytes([1, 0xF0, 0x20, 0x4E, 0xFE, 0xFF, 0xFF, 0xFF])), (65240, 6, bytes(8)), (126976, 6, bytes(8)),
                (127250, 2, bytes([1, 0xFE, 0xFF, 0xFF, 0x7F, 0xFF, 0x7F, 0xFD])), (129029, 3, bytes([0x00])), (129029, 3, b"")]
_BAD_CACHE = {}


def bad_frame(client: str, i: int) -> bytes:
    """a well-framed but undecodable frame in the client's wire format (checked: the decoder raises on it)"""
    key = (client, i % len(BAD_PAYLOADS))
    if key in _BAD_CACHE:
        return _BAD_CACHE[key]
    from nmea2000.decoder import NMEA2000Decoder
    from nmea2000.encoder import NMEA2000Encoder
    from nmea2000.utils import calculate_canbus_checksum
    src, dst = 0x21, 255

    def build(pgn, prio, data):
        hid = NMEA2000Encoder._build_header(pgn, src, dst, prio)
        if client == "ebyte":
            return bytes([0x80 | len(data)]) + hid.to_bytes(4, "big") + data.ljust(8, b"\0")
        if client == "waveshare":
            p = bytes([0xaa, 0x55, 1, 2, 1]) + hid.to_bytes(4, "little") + bytes([len(data)]) + data.ljust(8, b"\0") + b"\0"
            return p + bytes([calculate_canbus_checksum(p)])
        if client == "yd":
            return (b"00:00:00.000 R " + hid.to_bytes(4, "big").hex().upper().encode() + b" " +
                    " ".join(f"{x:02X}" for x in data).encode() + b"\r\n")
        n = (src << 12) | (dst << 4) | prio
        return f"A000001.000 {n:05X} {pgn:05X} {data.hex().upper()}\n".encode()

    def raises(b):
        d = NMEA2000Decoder()
        try:
            if client == "ebyte":
                d.decode_tcp(b)
            elif client == "waveshare":
                d.decode_usb(bytearray(b))
            elif client == "yd":
                d.decode_yacht_devices_string(b.decode().strip())
            else:
                d.decode_actisense_string(b.decode().strip())
        except Exception:  # noqa: BLE001
            return True
        return False
    first = None
    for j in range(len(BAD_PAYLOADS)):
        b = build(*BAD_PAYLOADS[(i + j) % len(BAD_PAYLOADS)])
        first = first or b
        if raises(b):
            _BAD_CACHE[key] = b
            return b
    _BAD_CACHE[key] = first        # nothing raises in this tree: still a valid frame of unusual content
    return first


def a_message():
    from nmea2000.decoder import NMEA2000Decoder
    return NMEA2000Decoder().decode_basic_string(
        "2020-01-01-00:00:00.000,2,127250,1,255,8,01,10,27,ff,7f,ff,7f,fd", True)


# --------------------------------------------------------------------------- labels from blocks

def _cb_of(evs, start=0):
    """outcome of the status callback invoked in evs[start:]: CbNone (no invocation) | CbRet | CbRaise | CbSusp"""
    inv = False
    for e in evs[start:]:
        if e[0] == "scb" and e[2] == "enter":
            inv = True
        elif e[0] == "scb" and e[2] in ("ret", "raise") and inv:
            return "CbRet" if e[2] == "ret" else "CbRaise"
    return "CbSusp" if inv else "CbNone"


def _has(evs, *prefix):
    n = len(prefix)
    return any(tuple(e[:n]) == prefix for e in evs)


def _scb_resumed(evs):
    """block starts by finishing a status callback that was suspended"""
    for e in evs:
        if e[0] == "scb":
            return e[2] in ("ret", "raise")
        if e[0] in ("enter", "exit", "exc", "sleep", "slept"):
            return False
    return False


class Unlabelled(Exception):
    pass


def labelise(blocks):
    """[(act, snap)] — act is Coq syntax of type ClientLTS.act. Fails closed on a block it cannot read."""
    out = []

    def add(act, snap):
        out.append((act, snap))
    close_first, close_phase, prev_snap, cur_snap = None, {}, None, None
    for b in blocks:
        k, evs, end, snap = b["kind"], b["ev"], b["end"], b["snap"]
        prev_snap, cur_snap = cur_snap, snap          # prev_snap: the client as the previous block left it
        how = b.get("how", "")
        if k == "env":
            add({"feed": f"AEnvFeed {b['n']}", "eof": "AEnvEof", "reset": "AEnvReset"}[b["what"]], snap)
        elif k == "user":
            add({"connect": "AUserConnect"}[b["what"]], snap)
        elif k == "connect":
            if how.startswith("throw"):
                raise Unlabelled(f"connect task got {how}")
            if _has(evs, "enter", "connect"):
                att = _has(evs, "enter", "_connect_impl")
                if att != (end == "susp"):
                    raise Unlabelled("connect entry: attempt/suspension mismatch")
                add(f"AConnEntry {'true' if att else 'false'}", snap)
            elif _has(evs, "exc", "_connect_impl"):
                sl = [e for e in evs if e[0] == "sleep"]
                if len(sl) != 1 or end != "susp":
                    raise Unlabelled("connect: failed attempt not followed by exactly one sleep")
                d2 = sl[0][1] * 2
                if d2 != int(d2):
                    raise Unlabelled(f"back-off {sl[0][1]} is not a multiple of 0.5 s")
                # serial: the port opened (self.writer assigned) and the configuration drain raised in the same step
                add(f"{'AImplFailOpened' if _has(evs, 'opened') else 'AImplFail'} {int(d2)}", snap)
            elif _has(evs, "exit", "_connect_impl"):
                i = [j for j, e in enumerate(evs) if e[:2] == ["exit", "_connect_impl"]][0]
                add(f"AImplOk {_cb_of(evs, i)}", snap)
            elif _has(evs, "opened") and end == "susp":
                add("AImplOpened", snap)
            elif _scb_resumed(evs):
                add("AConnCbDone", snap)
            elif evs and evs[0][0] == "slept":
                add("ACancelWaitDone" if evs[0][1] == 0.01 else "ABackoffDone", snap)
            else:
                raise Unlabelled(f"connect block {evs} {end}")
        elif k == "_receive_loop":
            cur = b["cur_rx"]
            if how == "throw:CancelledError":
                if end != "exc:CancelledError":
                    raise Unlabelled("receive loop survived a cancellation")
                add("ARxCancelled" if cur else "AOldRxCancelled", snap)
                continue
            if not cur:
                raise Unlabelled("a superseded receive loop ran a normal step")
            pend = None          # micro-block under construction
            i = 0
            n = len(evs)
            labs = []
            while i < n:
                e = evs[i]
                if e[:2] == ["enter", "_receive_loop"]:
                    labs.append(["ARxStart", e[-1]])
                elif e[:2] == ["exit", "_receive_impl"]:
                    s = e[-1]
                    labs.append([f"ARxIter (RxRet {s['buf']} {s['q']})", s])
                elif e[:2] == ["exc", "_receive_impl"]:
                    s = e[-1]
                    slept30 = any(x[0] == "slept" and x[1] == 30 for x in evs[:i])
                    cb = _cb_of(evs, i)
                    if cb in ("CbRet", "CbRaise") and not _has(evs[i:], "spawn", "connect"):
                        raise Unlabelled("receive-loop fault handler reported DISCONNECTED but scheduled no connect()")
                    if slept30:
                        labs.append([f"ARxSleepDone {cb}", None])
                    else:
                        labs.append([f"ARxIter (RxRaise {s['buf']} {cb})", None])
                elif e[0] == "sleep" and e[1] == 30:
                    labs.append([f"ARxIter (RxSleep30 {snap['buf']})", None])
                i += 1
            if _scb_resumed(evs):
                if not _has(evs, "spawn", "connect"):
                    raise Unlabelled("receive-loop fault handler resumed after the status callback but scheduled no connect()")
                labs.insert(0, ["ARxCbDone", None])
            # a trailing _receive_impl that neither returned nor raised nor sleeps: suspended in the read
            depth = 0
            for e in evs:
                if e[:2] == ["enter", "_receive_impl"]:
                    depth += 1
                elif e[:2] in (["exit", "_receive_impl"], ["exc", "_receive_impl"]):
                    depth = max(0, depth - 1) if depth else 0
            resumed_pending = not _has(evs, "enter", "_receive_loop") and not _scb_resumed(evs) and \
                (not evs or evs[0][:2] != ["enter", "_receive_impl"])
            ends_in_read = end == "susp" and not (labs and labs[-1][0].startswith(("ARxIter (RxSleep30", "ARxIter (RxRaise",
                                                                                      "ARxSleepDone", "ARxCbDone")))
            if ends_in_read and not (labs and labs[-1][0].startswith("ARxIter (RxSleep30")):
                # either a fresh call suspended (depth>0) or the pending call was resumed and suspended again
                if depth > 0 or resumed_pending:
                    labs.append(["ARxIter RxSusp", None])
            if not labs:
                raise Unlabelled(f"receive-loop block without label {evs} {end}")
            labs[-1][1] = snap
            for a, s in labs:
                if s is None:
                    raise Unlabelled(f"receive-loop micro-block without snapshot: {a}")
                add(a, s)
        elif k == "_process_queue":
            if how == "throw:CancelledError":
                if end != "exc:CancelledError":
                    raise Unlabelled("queue consumer survived a cancellation")
                add("AConsCancelled", snap)
                continue
            labs = []
            if _has(evs, "enter", "_process_queue"):
                labs.append(["AConsStart", None])
            inv = False
            first = True
            for e in evs:
                if e[0] != "rcb":
                    continue
                if e[1] == "enter":
                    inv = True
                elif e[1] in ("ret", "raise"):
                    if inv:
                        labs.append([f"AConsGot {'RcRet' if e[1] == 'ret' else 'RcRaise'}", e[-1]])
                    elif first:
                        labs.append(["AConsCbDone", e[-1]])
                    inv = False
                first = False
            if inv:
                labs.append(["AConsGot RcSusp", None])
            if not labs:
                raise Unlabelled(f"consumer block without label {evs} {end}")
            labs[-1][1] = snap
            for a, s in labs:
                add(a, s)
        elif k == "send":
            if how.startswith("throw"):
                raise Unlabelled("send task cancelled")
            if _has(evs, "enter", "send"):
                head = "ASendEntry"
            elif _scb_resumed(evs):
                if not _has(evs, "spawn", "connect"):
                    raise Unlabelled("send fault handler resumed after the status callback but scheduled no connect()")
                add("ASendCbDone", snap)
                continue
            else:
                head = "ASendDrainDone"
            if _has(evs, "enter", "_update_state") or _has(evs, "spawn", "connect"):
                if _cb_of(evs) != "CbSusp" and not _has(evs, "spawn", "connect"):
                    raise Unlabelled("send fault handler reported DISCONNECTED but scheduled no connect()")
                o = f"(SFault {_cb_of(evs)})"
            elif end == "susp":
                o = "SDrainSusp"
            else:
                # returned without fault handling: sent everything, encode failure, or a fault swallowed while CLOSED
                o = "SReturn"
            add(f"{head} {o}", snap)
        elif k == "close":
            if how.startswith("throw"):
                raise Unlabelled("close task cancelled")
            tid = b["tid"]
            if close_first is None and _has(evs, "enter", "close"):
                close_first = tid          # the first close() call to RUN is the one the labels AClose / ACloseCbDone / ACloseTimer follow
            if tid == close_first:
                if _has(evs, "enter", "close"):
                    add(f"AClose {_cb_of(evs)}", snap)
                elif _scb_resumed(evs):
                    add("ACloseCbDone", snap)
                elif evs and evs[0][0] == "slept":
                    add("ACloseTimer", snap)
                else:
                    raise Unlabelled(f"close block {evs} {end}")
            elif _has(evs, "enter", "close"):
                # a further close() call: the state is CLOSED already, so no status callback; it closes the writer, cancels the
                # receive task if that is not done (and sleeps), else the consumer (and sleeps), else returns
                if _cb_of(evs) != "CbNone":
                    raise Unlabelled("a further close() call invoked the status callback")
                add("AClose2Entry", snap)
                if end == "susp":
                    close_phase[tid] = "rx" if (prev_snap or {}).get("rx") else "cons"
            elif evs and evs[0][0] == "slept" and tid in close_phase:
                add(f"AClose2Timer {'true' if close_phase[tid] == 'rx' else 'false'}", snap)
                if end == "susp":
                    if close_phase[tid] != "rx":
                        raise Unlabelled("a further close() call slept a third time")
                    close_phase[tid] = "cons"
                else:
                    del close_phase[tid]
            else:
                raise Unlabelled(f"close block {evs} {end}")
        elif k == "_seed_network_map":
            # sleep 2 s, send, sleep 2 s, send, sleep 2 s, send; the sends run inside this task (see _wrap_top)
            if how.startswith("throw"):
                raise Unlabelled("seeding task cancelled")
            if _has(evs, "enter", "_seed_network_map"):
                if end != "susp" or _has(evs, "enter", "send"):
                    raise Unlabelled("seeding task did not start with a sleep")
                add("ASeedStart", snap)
                continue
            faulted = _has(evs, "enter", "_update_state") or _has(evs, "spawn", "connect")
            if _scb_resumed(evs):
                if not _has(evs, "spawn", "connect"):
                    raise Unlabelled("seeding send: fault handler resumed after the status callback but scheduled no connect()")
                head, o = "ASeedCbDone", None
            else:
                head = "ASeedTimer" if (evs and evs[0][0] == "slept" and evs[0][1] == 2) else "ASeedDrainDone"
                if head == "ASeedTimer" and not _has(evs, "enter", "send"):
                    raise Unlabelled("seeding task woke up without calling send()")
                if faulted:
                    if _cb_of(evs) != "CbSusp" and not _has(evs, "spawn", "connect"):
                        raise Unlabelled("seeding send: fault handler reported DISCONNECTED but scheduled no connect()")
                    o = f"(SFault {_cb_of(evs)})"
                elif _has(evs, "exit", "send"):
                    o = "SReturn"
                elif end == "susp":
                    o = "SDrainSusp"
                else:
                    raise Unlabelled(f"seeding block {evs} {end}")
            returned = _has(evs, "exit", "send")
            if returned and end == "susp" and not any(e[0] == "sleep" and e[1] == 2 for e in evs):
                raise Unlabelled("seeding task suspended after a send without sleeping")
            more = "true" if (returned and end == "susp") else "false"
            add(f"{head} {more}" if o is None else f"{head} {o} {more}", snap)
        else:
            raise Unlabelled(f"block of unknown kind {k}")
    return out


def coq_snap(s) -> str:
    b = lambda x: "true" if x else "false"  # noqa: E731
    wid = s["wid"]
    return (f"(mkSnap {s['st']} {b(s['lock'])} {b(s['rx'])} {b(s['cons'])} "
            f"{'(' + str(wid) + ')' if wid < 0 else wid} {b(s['wclosed'])} {s['q']} {s['pc']})")


def coq_trace(labels) -> str:
    return "[" + "; ".join(f"Lab ({a}) {coq_snap(s)}" for a, s in labels) + "]"


# --------------------------------------------------------------------------- the session runner

def run_session(spec: dict) -> dict:
    """Runs ONE scripted session of a real client on a fresh virtual loop and returns the observation."""
    import logging
    logging.disable(logging.CRITICAL)
    tr = Tracer()
    gw = Gateway(tr, spec.get("conns", []), spec["client"], spec.get("exc_rot", 0))
    undo = install(tr, gw)
    loop = VirtualLoop()
    tr.loop = loop
    asyncio.set_event_loop(loop)
    obs = {"id": spec.get("id"), "client": spec["client"], "spin": False}
    RUN_STATE["tr"], RUN_STATE["gw"], RUN_STATE["obs"] = tr, gw, obs
    try:
        loop.run_until_complete(_session(spec, tr, gw, obs, loop))
    finally:
        undo()
        try:
            for t in asyncio.all_tasks(loop):
                t.cancel()
            loop.run_until_complete(_sleep(0))
        except Exception:  # noqa: BLE001
            pass
        loop.close()
        asyncio.set_event_loop(None)
    return obs


RUN_STATE: dict = {}


async def _session(spec, tr, gw, obs, loop):
    import nmea2000.ioclient as io
    cname = spec["client"]
    cls = getattr(io, CLIENTS[cname])
    status, rcbs, beats = [], [], [0]
    cb_mode = spec.get("cb", "ret")          # ret | raise | slow | slowraise
    cb_delay = float(spec.get("cb_delay", 0.05))
    rcb_mode = spec.get("rcb", "ret")        # ret | raise | slow
    obs.update(status=status, rcb=rcbs, beats=beats)

    # oracle-only modes (not labelled, not fed to the Coq acceptor: the LTS has no close() inside a callback):
    #   rcb_close_at = n : the receive callback calls `await client.close()` on its n-th invocation (queue-consumer task)
    #   scb_close_on = v : the status callback calls `await client.close()` the first time it is told state v
    #                      (v = 0: on the task whose fault handler reports DISCONNECTED - the receive loop or a send())
    rcb_close_at = spec.get("rcb_close_at")
    scb_close_on = spec.get("scb_close_on")
    inner_closed = [False]

    async def close_from_callback(where):
        inner_closed[0] = True
        close_info["called"] = loop.time()
        close_info["from"] = where
        tr.ev("inner-close", where)
        try:
            await tr.orig_close(tr.client)
        except asyncio.CancelledError:
            # close() cancelled the very task it runs on: it unwinds here (also in the unchanged library)
            close_info["cancelled"] = loop.time()
            close_info["rcb_at_return"] = len(rcbs)
            raise
        close_info["returned"] = loop.time()
        close_info["rcb_at_return"] = len(rcbs)

    async def on_status(s):
        status.append([loop.time(), s.value, bool(tr.client.lock.locked())])
        if s.value == 2 and "at_closed" not in obs:
            obs["at_closed"] = {"attempts": len(gw.attempt_times), "writers": len(gw.writers)}
        tr.ev("scb", s.value, "enter")
        if scb_close_on is not None and s.value == scb_close_on and not inner_closed[0]:
            await close_from_callback("status callback told %d" % s.value)
        if cb_mode in ("slow", "slowraise"):
            await _sleep(cb_delay)
        if cb_mode in ("raise", "slowraise"):
            tr.ev("scb", s.value, "raise")
            raise RuntimeError("status callback failure (scripted)")
        tr.ev("scb", s.value, "ret")

    async def on_message(m):
        rcbs.append([loop.time(), getattr(m, "PGN", None)])
        tr.ev("rcb", "enter")
        if rcb_close_at is not None and len(rcbs) == int(rcb_close_at) and not inner_closed[0]:
            await close_from_callback("receive callback #%d" % len(rcbs))
        if rcb_mode == "slow":
            await _sleep(cb_delay)
        if rcb_mode == "raise":
            tr.mark("rcb", "raise")
            raise RuntimeError("receive callback failure (scripted)")
        tr.mark("rcb", "ret")

    async def heartbeat():
        while True:
            await _sleep(0.1)
            beats[0] += 1

    hb = loop.create_task(heartbeat())
    ckw = {"build_network_map": True} if spec.get("netmap") else {}       # (seeding clients then run _seed_network_map)
    client = cls("/dev/fake", **ckw) if cname == "waveshare" else cls("gw.invalid", 1, **ckw)
    tr.client = client
    # the constructor created the consumer task through the wrapped _process_queue: remember Traced -> Task
    # how the callbacks are handed to the client (spec key "cbkind"): the async functions themselves; objects whose
    # __call__ is async; lambdas that return the coroutine; or (status only, "syncraise") a plain function that raises
    cbkind = spec.get("cbkind", "func")
    scb, rcb_ = on_status, on_message
    if cbkind == "obj":
        class _Obj:
            def __init__(self, f):
                self.f = f

            async def __call__(self, *a):
                return await self.f(*a)
        scb, rcb_ = _Obj(on_status), _Obj(on_message)
    elif cbkind == "lambda":
        scb, rcb_ = (lambda s_: on_status(s_)), (lambda m_: on_message(m_))
    elif cbkind == "syncraise":
        def scb(s_):           # not a coroutine function: records the notification, then raises at call time
            status.append([loop.time(), s_.value, bool(tr.client.lock.locked())])
            tr.ev("scb", s_.value, "enter")
            tr.ev("scb", s_.value, "raise")
            raise RuntimeError("plain status callback failure (scripted)")
    elif cbkind == "sends":
        sent_once = [False]

        async def scb(s_):     # an application that answers a state change by sending (here: when told DISCONNECTED)
            await on_status(s_)
            if s_.value == 0 and not sent_once[0]:
                sent_once[0] = True
                try:
                    await asyncio.wait_for(tr.orig_send(tr.client, msg), 20.0)
                except asyncio.TimeoutError:
                    obs["callback_send_stuck"] = loop.time()
    client.set_status_callback(scb)
    client.set_receive_callback(rcb_)
    user_tasks = []
    close_info = {"called": None, "returned": None}
    obs["close"] = close_info
    msg = a_message()

    def cur_reader():
        return client.reader

    def cur_writer():
        return client.writer

    feeds, readers_seen = [], []
    obs["feeds"] = feeds

    def fed(name, k, accepted):
        """what the peer put on which connection: [virtual time, op, complete deliverable frames, connection number]"""
        if accepted:
            r = cur_reader()
            if not any(r is x for x in readers_seen):
                readers_seen.append(r)
            feeds.append([loop.time(), name, k, [i for i, x in enumerate(readers_seen) if x is r][0]])

    def do(op):
        """one user / peer action; synchronous (tasks are created, not awaited)"""
        name = op[0]
        if name == "connect":
            user_tasks.append(loop.create_task(client.connect()))
            tr.user("connect")
        elif name == "close":
            if close_info["called"] is None:
                close_info["called"] = loop.time()

                async def closer():
                    pass
                t = loop.create_task(client.close())

                def closed_cb(_t):
                    close_info["returned"] = loop.time()
                    close_info["rcb_at_return"] = len(rcbs)
                t.add_done_callback(closed_cb)
                user_tasks.append(t)
        elif name == "close2":      # a SECOND close() call, op[1] virtual seconds later (oracle-only sessions)
            def again():
                t2 = loop.create_task(client.close())

                def closed2(_t):
                    w = client.writer
                    close_info["returned2"] = loop.time()
                    close_info["link_open_at_return2"] = bool(w is not None and not getattr(w, "closed", True))
                t2.add_done_callback(closed2)
                user_tasks.append(t2)
            close_info["second"] = True
            loop.call_later(float(op[1]), again)
        elif name == "send":
            user_tasks.append(loop.create_task(client.send(msg)))
        elif name == "frames":
            data = b"".join(frame(cname, i) for i in range(int(op[1])))
            fed(name, int(op[1]), tr.env("feed", cur_reader(), len(data), data))
        elif name == "badframes":   # well-framed frames whose decoding raises
            data = b"".join(bad_frame(cname, i) for i in range(int(op[1])))
            fed(name, 0, tr.env("feed", cur_reader(), len(data), data))
        elif name == "feed":
            data = bytes.fromhex(op[1])
            fed(name, 0, tr.env("feed", cur_reader(), len(data), data))
        elif name == "partial":     # first half of a frame (mid-packet position)
            f = frame(cname, 3)
            data = f[: max(1, len(f) // 2)]
            fed(name, 0, tr.env("feed", cur_reader(), len(data), data))
        elif name == "eof":
            tr.env("eof", cur_reader())
        elif name == "reset":
            tr.env("reset", cur_reader())
        elif name == "refuse_next":
            gw.refuse_next = int(op[1])
        elif name == "wmode":       # behaviour of the current writer from now on
            w = cur_writer()
            if w is not None:
                w.mode = op[1]
        else:
            raise ValueError(f"unknown script op {op}")

    inj = spec.get("inject")
    if inj:
        def hook(n):
            if n == inj["at"]:
                tr.on_label = None
                for op in inj["ops"]:
                    do(op)
        if inj["at"] == 0:
            for op in inj["ops"]:
                do(op)
        else:
            tr.on_label = hook

    for op in spec["script"]:
        if op[0] == "run":
            await _sleep(float(op[1]))
        else:
            do(op)
    # settle: every back-off (<= 10 s) and scripted delay gets time to finish
    await _sleep(float(spec.get("settle", 25.0)))
    obs["vt_end"] = loop.time()
    hb.cancel()
    me = asyncio.current_task()
    pend = [t for t in asyncio.all_tasks(loop) if t is not me and t is not hb and not t.done()]

    def kind_of(t):
        c = t.get_coro()
        return getattr(c, "kind", getattr(c, "__qualname__", "?"))
    obs["pending"] = sorted(kind_of(t) for t in pend)
    obs["state"] = client._state.value
    obs["attempts"] = list(gw.attempt_times)
    obs["writers"] = [{"wid": w.wid, "closed": w.closed, "writes": len(w.written)} for w in gw.writers]
    obs["cur_wid"] = client.writer.wid if client.writer is not None else -1
    obs["rx_alive"] = client._receive_task is not None and not client._receive_task.done()
    obs["nblocks"] = len(tr.blocks)
    obs["npos"] = tr.nlabels
    obs["max_rx"] = tr.max_rx
    obs["states"] = tr.states
    bo = {}
    for b in tr.blocks:
        if b["kind"] == "connect":
            for e in b["ev"]:
                if e[0] == "sleep" and e[1] != 0.01:
                    bo.setdefault(b["tid"], []).append(e[1])
    obs["backoffs"] = list(bo.values())
    obs["faults"] = [[b["vt"], b["what"]] for b in tr.blocks if b["kind"] == "env" and b["what"] in ("eof", "reset")]
    obs["wfaults"] = list(gw.wfaults)
    try:
        if rcb_close_at is not None or scb_close_on is not None:
            raise Unlabelled("oracle-only session: close() called from inside a callback is not a schedule of the LTS")
        if spec.get("cbkind") in ("syncraise", "sends"):
            raise Unlabelled("oracle-only session: callback kind outside the LTS (plain function / callback that sends)")
        labels = labelise(tr.blocks)
        obs["labels"] = [[a, s] for a, s in labels]
        obs["unlabelled"] = None
    except Unlabelled as e:
        obs["labels"] = None
        obs["unlabelled"] = str(e)
    if spec.get("keep_blocks"):
        obs["blocks"] = tr.blocks


# remember the asyncio.Task of every Traced coroutine (needed for `cur_rx` and the snapshot)
_orig_task_init = None


def _hook_create_task():
    """asyncio tasks created for a Traced coroutine are registered with the tracer that owns it."""
    base = asyncio.BaseEventLoop
    orig = base.create_task

    def create_task(self, coro, **kw):
        t = orig(self, coro, **kw)
        if isinstance(coro, Traced):
            coro.tr.tasks[id(coro)] = t
            if coro.kind == "_receive_loop":
                coro.tr.rx_tasks.append(t)
        return t
    base.create_task = create_task


_hook_create_task()


# --------------------------------------------------------------------------- subprocess protocol

def _batch_main():
    """stdin: JSON list of specs; stdout: one JSON line per finished run. A per-run watchdog thread turns a run
    that makes no progress for `wall` seconds into {"spin": true} and exits the process with code 3."""
    sys.path.insert(0, os.environ.get("NMEA2000_REPO") or os.environ.get("PYTHONPATH", "/repo").split(":")[0])
    specs = json.load(sys.stdin)
    wall = float(os.environ.get("VLOOP_WALL", "6"))
    out = sys.stdout
    for spec in specs:
        done = threading.Event()

        def watchdog(spec=spec, done=done):
            # progress-based: a run is a spin when neither the number of finished event-loop steps nor the virtual clock
            # has moved for `wall` seconds (a loaded machine is slow but keeps finishing steps; a session that keeps
            # finishing steps without ever ending is stopped by MAX_BLOCKS)
            last_sig, idle = None, 0.0
            while True:
                if done.wait(1.0):
                    return
                tr = RUN_STATE.get("tr")
                try:
                    sig = (len(tr.blocks), tr.loop.time()) if tr and tr.loop else None
                except Exception:  # noqa: BLE001
                    sig = None
                if sig != last_sig:
                    last_sig, idle = sig, 0.0
                    continue
                idle += 1.0
                if idle >= wall:
                    break
            tr, gw, obs = RUN_STATE.get("tr"), RUN_STATE.get("gw"), RUN_STATE.get("obs") or {}
            o = {"id": spec.get("id"), "client": spec["client"], "spin": True,
                 "beats": (obs.get("beats") or [None])[0], "status": obs.get("status"),
                 "vt": tr.loop.time() if tr and tr.loop else None,
                 "nblocks": len(tr.blocks) if tr else None,
                 "cur_block_kind": (tr.cur or {}).get("kind") if tr else None,
                 "cur_block_events": len((tr.cur or {}).get("ev", [])) if tr else None,
                 "attempts": list(gw.attempt_times) if gw else None}
            out.write(json.dumps(o) + "\n")
            out.flush()
            os._exit(3)
        th = threading.Thread(target=watchdog, daemon=True)
        th.start()
        try:
            obs = run_session(spec)
        except BaseException as e:  # noqa: BLE001
            import traceback
            obs = {"id": spec.get("id"), "client": spec["client"], "spin": False, "crash": repr(e),
                   "tb": traceback.format_exc()[-1500:]}
        done.set()
        out.write(json.dumps(obs) + "\n")
        out.flush()


def run_batch(specs: list[dict], repo: str, wall: float = 6.0, procs: int = 3, outer: float = 600.0) -> list[dict]:
    """Parent side: run the specs in `procs` subprocesses; returns observations in spec order. A spinning run is
    reported by the child's watchdog ({"spin": true}); the remaining specs of that batch are re-submitted to a
    fresh process. A child that dies silently or exceeds the outer timeout yields {"spin": true, "silent": true}."""
    for i, s in enumerate(specs):
        s["id"] = i
    results: dict[int, dict] = {}
    chunks = [specs[i::procs] for i in range(procs)]
    env = dict(os.environ)
    env.update(PYTHONPATH=repo, NMEA2000_REPO=repo, PYTHONHASHSEED="0", PYTHONDONTWRITEBYTECODE="1",
               VLOOP_WALL=str(wall), NMEA2000_VERIF="1")

    def work(chunk):
        todo = list(chunk)
        while todo:
            p = subprocess.Popen([sys.executable, os.path.abspath(__file__), "--batch"], stdin=subprocess.PIPE,
                                 stdout=subprocess.PIPE, stderr=subprocess.DEVNULL, env=env, text=True)
            try:
                so, _ = p.communicate(json.dumps(todo), timeout=outer)
            except subprocess.TimeoutExpired:
                p.kill()
                so, _ = p.communicate()
            got = []
            for line in so.splitlines():
                try:
                    o = json.loads(line)
                except ValueError:
                    continue
                results[o["id"]] = o
                got.append(o["id"])
            ids = [s["id"] for s in todo]
            rest = [s for s in todo if s["id"] not in got]
            if rest and len(got) == 0 or (rest and not any(results[g].get("spin") for g in got)):
                # the child died without reporting on its current spec
                bad = rest[0]
                results[bad["id"]] = {"id": bad["id"], "client": bad["client"], "spin": True, "silent": True}
                rest = rest[1:]
            todo = rest
            del ids
    ths = [threading.Thread(target=work, args=(c,)) for c in chunks if c]
    for t in ths:
        t.start()
    for t in ths:
        t.join()
    return [results.get(i, {"id": i, "client": specs[i]["client"], "spin": True, "silent": True})
            for i in range(len(specs))]


if __name__ == "__main__":
    if len(sys.argv) > 1 and sys.argv[1] == "--batch":
        _batch_main()
    else:
        sys.path.insert(0, os.environ.get("NMEA2000_REPO") or os.environ.get("PYTHONPATH", "/repo").split(":")[0])
        spec = json.loads(sys.argv[1])
        spec["keep_blocks"] = True
        o = run_session(spec)
        for b in o.pop("blocks"):
            print(b["kind"], b.get("how", b.get("what")), b["end"], [e[:3] for e in b["ev"]], b["snap"])
        print(json.dumps({k: v for k, v in o.items() if k != "labels"}))
        for l in o["labels"] or []:
            print(l[0], l[1])


# --------------------------------------------------------------------------- 4. session families (C13, C14)

GARBAGE = (b"\xff\x00$garbage,not a frame\r\n\xaa\x55\x01\x02" + bytes(range(7, 30)) + b"\nA0 zz\n").hex()

BASE_CONNS = [{"refuse": True}, {"delay": 0.3, "drain": "susp"}, {"delay": 0.1}]
BASE_SCRIPT = [["connect"], ["run", 2.0], ["frames", 2], ["run", 0.2], ["connect"], ["partial"], ["run", 0.2],
               ["send"], ["run", 0.2], ["eof"], ["run", 1.5], ["frames", 1], ["run", 0.3],
               ["wmode", "fail"], ["send"], ["run", 1.0], ["frames", 1], ["run", 0.5]]
RECOVERY_TAIL = [["run", 12.0], ["frames", 1], ["run", 0.5]]     # C13: after every back-off, a new frame must arrive

FAULTS = {"eof": [["eof"]], "reset": [["reset"]], "writeerr": [["wmode", "fail"], ["send"]],
          "garbage_eof": [["feed", GARBAGE], ["eof"]], "refuse3_eof": [["refuse_next", 3], ["eof"]],
          "refuse7_reset": [["refuse_next", 7], ["reset"]], "drainerr": [["wmode", "suspfail"], ["send"]],
          "sorry": [["feed", b"Sorry,Limited".hex()]],
          # a long outage: 35 attempts in a row fail (about five minutes of back-off at the 10 s cap), then the gateway is back
          "refuse35_eof": [["refuse_next", 35], ["eof"]],
          # the link breaks in the middle of a frame: what was buffered of it must not damage the first frame of the next link
          "partial_eof": [["partial"], ["eof"]], "partial_reset": [["partial"], ["reset"]],
          # (text clients) more than the 64 KiB stream limit without a line end, then ordinary traffic
          "overlong": [["feed", (b"\x41\x30\x7a" * 23000).hex()]],
          "undecodable_eof": [["badframes", 4], ["frames", 1], ["badframes", 2], ["eof"]]}


def spec(client, cb="ret", rcb="ret", script=None, conns=None, inject=None, tail=None, settle=35.0, **kw):
    d = {"client": client, "cb": cb, "rcb": rcb, "conns": list(BASE_CONNS if conns is None else conns),
         "script": list(BASE_SCRIPT if script is None else script) + list(tail or []), "settle": settle}
    if inject is not None:
        d["inject"] = inject
    d.update(kw)
    return d


def trace_cases(obs_list):
    """Coq cases (kind * list label) for the runs that produced a labelled trace"""
    cases, idx = [], []
    for i, o in enumerate(obs_list):
        if o.get("labels") is None:
            continue
        cases.append(f"({KIND[o['client']]}, {coq_trace(o['labels'])})")
        idx.append(i)
    return cases, idx
