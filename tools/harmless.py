#!/venv/bin/python
"""harmless.py — behaviour-preserving rewrites of /repo (in a scratch worktree) against which every check must stay
silent (exit 0, no VIOLATION line). Prints one line per (rewrite, check)."""
import os
import subprocess
import sys

VERIF = os.path.dirname(os.path.dirname(os.path.abspath(__file__)))
WT = "/tmp/harmless_wt"

REWRITES = {
 # name: (file, [(old, new)], checks)
 "header-branch-inverted": ("nmea2000/decoder.py", [(
     "        if pf < 0xF0:\n            # PDU1 format: PS is destination address\n            dest = ps\n            pgn_id = (dp << 16) | (pf << 8)\n        else:\n            # PDU2 format: broadcast, destination is always 255\n            dest = 255\n            pgn_id = (dp << 16) | (pf << 8) | ps\n",
     "        if pf >= 240:\n            dest = 0xFF\n            pgn_id = pgn_id_raw\n        else:\n            dest = ps\n            pgn_id = pgn_id_raw & 0x3FF00\n")],
     ["C05", "C06", "C07", "C01"]),
 "segmenter-ceil-div": ("nmea2000/encoder.py", [(
     "            total_frames = 1 + (leftover + 7 - 1) // 7\n",
     "            total_frames = 1 - (-leftover // 7)\n")], ["C03", "C04", "C06", "C19"]),
 "units-elif-chain": ("nmea2000/message.py", [(
     "            if f.physical_quantities == PhysicalQuantities.PRESSURE:\n",
     "            elif f.physical_quantities == PhysicalQuantities.PRESSURE:\n")], ["C18", "C17", "C15"]),
 "utils-rename-local": ("nmea2000/utils.py", [("number_int", "raw_scaled")], ["C01", "C02", "C09"]),
 "pgns-reformat": ("nmea2000/pgns.py", [("    running_bit_offset = 0\n", "    running_bit_offset = 0  # start\n")], ["C01", "C08", "C02", "C17"]),
 "serial-buffer-renamed": ("nmea2000/ioclient.py", [("self._buffer", "self._rxbuf")], ["C20", "C12", "C13", "C06"]),
 "key-fstring": ("nmea2000/message.py", [(
     '                    primary_key += "_" + str(nmea_field.raw_value)\n',
     '                    primary_key = f"{primary_key}_{nmea_field.raw_value}"\n')], ["C17"]),
 "claim-compare-flipped": ("nmea2000/decoder.py", [(
     "            if old_source is not None and old_source.name == data_int:",
     "            if old_source is not None and not (data_int != old_source.name):")], ["C11", "C10", "C16"]),
 "json-default-split": ("nmea2000/message.py", [(
     "            if isinstance(obj, (bytes, bytearray)):",
     "            if isinstance(obj, bytes) or isinstance(obj, bytearray):")], ["C15"]),
 "checksum-loop": ("nmea2000/utils.py", [(
     "    return sum(data[2:19]) & 0xFF", "    total = 0\n    for b in data[2:19]:\n        total = (total + b) % 256\n    return total")],
     ["C06", "C20", "C12"]),
}


def sh(cmd, **kw):
    return subprocess.run(cmd, shell=True, capture_output=True, text=True, **kw)


def main():
    only = sys.argv[1:] or list(REWRITES)
    for name in only:
        path, subs, checks = REWRITES[name]
        sh(f"git -C /repo worktree remove --force {WT}")
        sh(f"git -C /repo worktree add -f {WT} HEAD")
        p = os.path.join(WT, path)
        s = open(p).read()
        applied = 0
        for old, new in subs:
            if old in s:
                s = s.replace(old, new)
                applied += 1
        open(p, "w").write(s)
        if not applied:
            print(f"{name}: rewrite does not apply (source changed)")
            continue
        t = sh(f"/venv/bin/python -m pytest -q -p no:cacheprovider 2>&1 | tail -1", cwd=WT, env={**os.environ, "PYTHONPATH": WT})
        print(f"{name}: suite: {t.stdout.strip()}")
        for c in checks:
            r = sh(f"./check {c} --tier quick", cwd=VERIF,
                   env={**os.environ, "NMEA2000_REPO": WT, "VERIF_BUILD": "/tmp/harmless_build", "VERIF_OUT": "/tmp/harmless_out"})
            viol = [ln for ln in r.stdout.splitlines() if ln.startswith("VIOLATION")]
            print(f"{name}: {c}: exit {r.returncode}, {len(viol)} VIOLATION line(s) {viol[:1]}")
            if viol:
                i = r.stdout.splitlines().index(viol[0])
                print("    " + "\n    ".join(r.stdout.splitlines()[i + 1:i + 4])[:600])
        sh(f"git -C /repo worktree remove --force {WT}")
    sh("rm -rf /tmp/harmless_build /tmp/harmless_out")


if __name__ == "__main__":
    main()
