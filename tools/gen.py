"""gen.py — regenerate build/gen from /repo's working tree (translators) and compile it.

Content-hash cached (sources + translators + Defn.v), flock-protected, so the table-driven
checks of one run share one regeneration; any edit of /repo's pgns.py or canboat.json changes
the hash and forces a rebuild."""
from __future__ import annotations
import fcntl
import os
import shutil
import subprocess
import sys
import time
from concurrent.futures import ThreadPoolExecutor

sys.path.insert(0, os.path.dirname(os.path.abspath(__file__)))
import vlib  # noqa: E402
import tr_db  # noqa: E402
import tr_pgns  # noqa: E402

GEN = os.path.join(vlib.BUILD, "gen")
TPL = os.path.join(vlib.VERIF, "tools", "templates")


def _coqc(path, timeout=900):
    return vlib.coqc(path, timeout)


def ensure_gen() -> dict:
    """Returns {'ok', 'refused', 'error', 'stats', 'cached', 'wall_s'}."""
    t0 = time.time()
    os.makedirs(vlib.BUILD, exist_ok=True)
    srcs = [os.path.join(vlib.REPO, "nmea2000", "pgns.py"), os.path.join(vlib.REPO, "canboat.json"),
            os.path.join(vlib.VERIF, "tools", "tr_pgns.py"), os.path.join(vlib.VERIF, "tools", "tr_db.py"),
            os.path.join(vlib.THEORIES, "Defn.v"), os.path.join(vlib.THEORIES, "Base.v")]
    with open(os.path.join(vlib.BUILD, ".gen.lock"), "w") as lk:
        fcntl.flock(lk, fcntl.LOCK_EX)
        stamp = vlib.sha_files(srcs)
        sp = os.path.join(GEN, ".stamp")
        if os.path.exists(sp) and open(sp).read().split("\n")[0] == stamp:
            import json
            return {"ok": True, "refused": None, "cached": True, "stats": json.loads(open(sp).read().split("\n", 1)[1]),
                    "wall_s": round(time.time() - t0, 2)}
        shutil.rmtree(GEN, ignore_errors=True)
        os.makedirs(GEN)
        try:
            s1 = tr_pgns.emit(srcs[0], GEN)
        except tr_pgns.Refuse as e:
            return {"ok": False, "refused": str(e), "refused_line": e.lineno, "stats": {}, "cached": False,
                    "wall_s": round(time.time() - t0, 2)}
        except SyntaxError as e:
            return {"ok": False, "refused": f"pgns.py does not parse: {e}", "stats": {}, "cached": False,
                    "wall_s": round(time.time() - t0, 2)}
        s2 = tr_db.emit(srcs[1], GEN)
        leaves = [m for m in s1["modules"] + s2["modules"] if m not in ("GenCode", "GenDb")]
        errs = []
        with ThreadPoolExecutor(max_workers=vlib.NCPU) as ex:
            for m, (rc, out) in zip(leaves, ex.map(lambda m: _coqc(os.path.join(GEN, m + ".v")), leaves)):
                if rc != 0:
                    errs.append(f"{m}: {out[-800:]}")
        for m in ("GenCode", "GenDb"):
            if not errs:
                rc, out = _coqc(os.path.join(GEN, m + ".v"))
                if rc != 0:
                    errs.append(f"{m}: {out[-800:]}")
        if errs:
            return {"ok": False, "refused": None, "error": "\n".join(errs), "stats": {}, "cached": False,
                    "wall_s": round(time.time() - t0, 2)}
        stats = {"pgns": {k: v for k, v in s1.items() if k != "modules"}, "db": {k: v for k, v in s2.items() if k != "modules"}}
        import json
        with open(sp, "w") as fh:
            fh.write(stamp + "\n" + json.dumps(stats))
        return {"ok": True, "refused": None, "cached": False, "stats": stats, "wall_s": round(time.time() - t0, 2)}


def _theories_sha() -> str:
    fs = []
    for root, _d, files in os.walk(vlib.THEORIES):
        fs += [os.path.join(root, f) for f in files if f.endswith(".v")]
    return vlib.sha_files(sorted(fs))


def compile_template(name: str, timeout: int = 1800, deps: tuple = ()) -> tuple[bool, str]:
    """Compile tools/templates/<name>.v as module NVGen.<name> inside build/gen (so later templates can
    import its theorems). Cached: the compiled file and its output are reused while the regenerated tables
    (build/gen is wiped whenever /repo's pgns.py or canboat.json change), the template text and every
    theory source are unchanged; a failed compilation is never cached."""
    for d in deps:
        ok, out = compile_template(d, timeout)
        if not ok:
            return False, f"dependency {d} does not compile: " + out[-1500:]
    src = os.path.join(TPL, name + ".v")
    dst = os.path.join(GEN, name + ".v")
    key = vlib.sha_files([src, os.path.join(GEN, ".stamp")]) + _theories_sha()
    kp, op = os.path.join(GEN, name + ".key"), os.path.join(GEN, name + ".out")
    with open(os.path.join(vlib.BUILD, f".obl_{name}.lock"), "w") as lk:
        fcntl.flock(lk, fcntl.LOCK_EX)
        if os.path.exists(kp) and open(kp).read() == key and os.path.exists(os.path.join(GEN, name + ".vo")):
            return True, open(op).read()
        for ext in (".vo", ".key", ".out", ".glob", ".vok", ".vos"):
            try:
                os.unlink(os.path.join(GEN, name + ext))
            except FileNotFoundError:
                pass
        shutil.copy(src, dst)
        rc, out = _coqc(dst, timeout)
        if rc == 0:
            with open(op, "w") as fh:
                fh.write(out)
            with open(kp, "w") as fh:
                fh.write(key)
        return rc == 0, out


def theorem_names(name: str) -> list[str]:
    return [m.group(2) for m in vlib._THM_RE.finditer(open(os.path.join(TPL, name + ".v")).read())]
