"""obs.py — canonicalisation of what the real library returns into Coq literals (CorrFields.v types)."""
from __future__ import annotations
import datetime
import math
import struct
from vlib import cz, cstr_z, cbytes, cbool, clist

EPOCH = datetime.date(1970, 1, 1)


def fbits(x: float) -> int:
    return struct.unpack(">Q", struct.pack(">d", x))[0]


def oval(v) -> str:
    if v is None:
        return "ONone"
    if isinstance(v, bool):
        return f"(OInt {int(v)})"
    if isinstance(v, int):
        return f"(OInt {cz(v)})"
    if isinstance(v, float):
        return "ONan" if math.isnan(v) else f"(OFloat {fbits(v)})"
    if isinstance(v, str):
        return f"(OText {cbytes(v.encode('utf-8'))})"
    if isinstance(v, (bytes, bytearray)):
        return f"(OBytes {cbytes(v)})"
    if isinstance(v, datetime.date) and not isinstance(v, datetime.datetime):
        return f"(ODate {cz((v - EPOCH).days)})"
    if isinstance(v, datetime.time):
        return f"(OTime {v.hour * 3600 + v.minute * 60 + v.second})"
    raise TypeError(f"unexpected value type {type(v)}")


def ostr(s) -> str:
    return "None" if s is None else f"(Some {cstr_z(s)})"


def err_of(e: BaseException) -> str:
    s = str(e)
    if isinstance(e, ValueError) and ("minimum allowed" in s or "maximum allowed" in s or "out of range" in s):
        return "ERange"
    if isinstance(e, AssertionError):
        return "EAssert"
    if isinstance(e, IndexError):
        return "EIndex"
    if "not supported" in s or "not supporting" in s:
        return "EUnsupported"
    if "is missing" in s or "missing" in s:
        return "EMissing"
    return "EOther"


def ofield(f) -> str:
    pq = None if f.physical_quantities is None else f.physical_quantities.name
    return (f"(mkOF {cstr_z(f.id)} {cstr_z(f.name)} {ostr(f.description)} {ostr(f.unit_of_measurement)} "
            f"{oval(f.value)} {oval(f.raw_value)} {ostr(pq)} {cstr_z(f.type.name)} {cbool(bool(f.part_of_primary_key))})")


def omsg(m) -> str:
    ttl = None if m.ttl is None else int(m.ttl.total_seconds() * 1000)
    return (f"(OMsg {cz(m.PGN)} {cstr_z(m.id)} {cstr_z(m.description)} "
            f"{'None' if ttl is None else '(Some ' + cz(ttl) + ')'} {clist(ofield(f) for f in m.fields)})")


def ores(fn, *args) -> tuple[str, object]:
    """run fn, return (Coq literal of type ores, python result or exception)"""
    try:
        m = fn(*args)
    except Exception as e:  # noqa: BLE001
        return f"(OErr {err_of(e)})", e
    return omsg(m), m
