#!/bin/sh
# seedeval.sh <Cxx> <dir with patch.diff + demo.py> [tier]
# Confirms a seeded change (tests pass with it, demo fails with it and passes without) in a scratch
# worktree and runs the property's check against that worktree with private build/output dirs.
# Prints one summary line; details in <dir>/eval/.
P=$1; D=$2; TIER=${3:-quick}
WT=/tmp/ev_$$_wt; OUT=$D/eval; rm -rf "$OUT"; mkdir -p "$OUT"
git -C /repo worktree add -f "$WT" HEAD >/dev/null 2>&1 || { echo "$P $D worktree-failed"; exit 2; }
cd "$WT"
PYTHONPATH=$WT timeout 120 /venv/bin/python "$D/demo.py" >"$OUT/demo_clean.log" 2>&1; DC=$?
if ! git apply "$D/patch.diff" 2>"$OUT/apply.log"; then echo "$P $D patch-does-not-apply"; cd /; git -C /repo worktree remove --force "$WT"; exit 2; fi
PT=1; for try in 1 2 3; do PYTHONPATH=$WT timeout 600 /venv/bin/python -m pytest -q -p no:cacheprovider >"$OUT/pytest.log" 2>&1; PT=$?; [ $PT = 0 ] && break; sleep 7; done  # test_tcp_client binds a fixed port: retry when another run holds it
PYTHONPATH=$WT timeout 120 /venv/bin/python "$D/demo.py" >"$OUT/demo_mut.log" 2>&1; DM=$?
cd /verif
NMEA2000_REPO=$WT VERIF_BUILD=/tmp/ev_$$_build VERIF_OUT=$OUT timeout 3000 ./check "$P" --tier "$TIER" >"$OUT/check_$TIER.log" 2>&1; CK=$?
NV=$(grep -c '^VIOLATION' "$OUT/check_$TIER.log")
NF=$(grep -c 'no-failing-input-found' "$OUT/check_$TIER.log")
echo "$P $D tests_rc=$PT demo_clean_rc=$DC demo_mut_rc=$DM check_${TIER}_rc=$CK violations=$NV nofail=$NF"
git -C /repo worktree remove --force "$WT"; rm -rf /tmp/ev_$$_build
